----------------------------- MODULE MCAlgorithms -----------------------------
(* TLC: sanity of the spelling table and the enumeration handed to the harness *)
EXTENDS Algorithms, TLC, Json
VARIABLE x
Init == x = 0
Next == UNCHANGED x
Spec == Init /\ [][Next]_x
\* every generated spelling is accepted and cleans to its own algorithm; no two algorithms
\* share a spelling; the unsupported names are refused
TableOK ==
  /\ \A a \in Supported : \A s \in Spellings(a) : Clean(s) = a
  /\ \A a, b \in Supported : a # b => Spellings(a) \cap Spellings(b) = {}
  /\ \A u \in Unsupported : ~Accepted(u)
  /\ Cardinality(Supported) = 12
Dump == PrintT("SPELLINGS " \o ToJson({[algo |-> a, spellings |-> Spellings(a)] : a \in Supported}))
        /\ PrintT("UNSUPPORTED " \o ToJson(Unsupported))
=============================================================================
