SPECIFICATION Spec
CONSTANT MaxK = 28
CONSTANT defaultInitValue = defaultInitValue
INVARIANT RaisesUnlessDone
INVARIANT NoHalfBound
INVARIANT NoEmptyList
INVARIANT OthersUntouched
INVARIANT ErrorOnlyIfFault
INVARIANT Unlocked
INVARIANT Dump
CHECK_DEADLOCK FALSE
