SPECIFICATION Spec
INVARIANT TableOK
INVARIANT Dump
