"""Crash-point and fault-site enumeration on the REAL code (C09 C10 C13, C08 rides along).

Every file-system operation of a call (interposer, sequential mode) is a crash point; the
mutating / opening ones are fault sites.
  crash k : the call runs in a forked child that os._exit()s immediately before its k-th
            operation (no finally blocks, no atexit handlers: process death); the parent
            abstracts the left-over directory, reopens it with a fresh FileHashStore and
            runs the recovery script.
  fault k : OSError(errno) is raised instead of the k-th fault site, once, or for every
            later operation on the same destination until the call returns.
Records are judged by TLC (spec/TraceFault.tla).
"""
import errno as _errno
import json
import multiprocessing
import os
import shutil
import threading
import time

from . import absfn, interpose, tlc, tokens
from .driver import Driver, load_hashstore, make_store
from .ids import Inst, write_inputs
from .conccheck import C, cstr, ALL_OPS

FAULT_OPS = {"create", "open:r", "open:w", "open:a", "open:rw", "rename", "replace", "remove",
             "unlink", "mkdir", "rmdir", "flock", "chmod", "f.write", "f.truncate", "truncate",
             "link", "symlink", "osopen"}

INST = dict(pids=["p1", "p2"], contents=["a", "b"], extras=["x"], fmts=["fD", "f2"],
            vers=["v1", "v2"])

STARTS = {
    "empty": [],
    "p2a": [C("store", "p2", "a", "none")],
    "p2b": [C("store", "p2", "b", "none")],
    "p1a": [C("store", "p1", "a", "none")],
    "unref": [C("storenp", c="a")],
    "shared": [C("store", "p1", "a", "none"), C("store", "p2", "a", "none")],
    "p1a+meta": [C("store", "p1", "a", "none"), C("putmeta", "p1", fmt="fD", ver="v1"),
                 C("putmeta", "p1", fmt="f2", ver="v1"), C("putmeta", "p2", fmt="fD", ver="v1")],
    "shared+meta": [C("store", "p1", "a", "none"), C("store", "p2", "a", "none"),
                    C("putmeta", "p1", fmt="fD", ver="v1"), C("putmeta", "p2", fmt="fD", ver="v1")],
    "doc": [C("store", "p2", "a", "none"), C("putmeta", "p1", fmt="fD", ver="v1"),
            C("putmeta", "p2", fmt="fD", ver="v1")],
    "missing": [C("tag", "p1", "a")],
}

SCENARIOS = [
    ("empty", C("store", "p1", "a", "none")),          # new content, first pid
    ("empty", C("store", "p1", "b", "good")),          # multi-buffer content, validated
    ("p2a", C("store", "p1", "a", "none")),            # duplicate content, additional pid
    ("p2b", C("store", "p1", "a", "none")),            # other pid bound to other content
    ("unref", C("store", "p1", "a", "none")),          # duplicate content, first pid
    ("p1a", C("store", "p1", "a", "none")),            # rejected: already bound
    ("p2a", C("store", "p1", "a", "badsum")),          # rejected: invalid
    ("empty", C("storenp", c="a")),
    ("unref", C("tag", "p1", "a")),
    ("p2a", C("tag", "p1", "a")),
    ("empty", C("tag", "p1", "a")),
    ("p1a", C("delete", "p1")),
    ("shared", C("delete", "p1")),
    ("p1a+meta", C("delete", "p1")),
    ("shared+meta", C("delete", "p1")),
    ("missing", C("delete", "p1")),
    ("p2a", C("putmeta", "p1", fmt="fD", ver="v2")),
    ("doc", C("putmeta", "p1", fmt="fD", ver="v2")),
    ("doc", C("putmeta", "p1", fmt="nofmt", ver="v2")),
    ("p1a+meta", C("delmeta", "p1", fmt="nofmt")),
    ("p1a+meta", C("delmeta", "p1", fmt="fD")),
    ("unref", C("dii", c="a", val="badsum")),
    ("p2a", C("dii", c="a", val="badsum")),
    # the caller's own spelling of a cid (upper-case hex, no such object): claims and releases
    # must agree on the spelling whatever happens in between
    ("empty", C("tag", "p1", "x")),
    ("p2a", C("tag", "p1", "x")),
]


def _opclass(op):
    """Family of an intercepted operation, for persistent faults: a destination that cannot be
    WRITTEN (created, opened for writing, written, truncated, renamed onto) or cannot be READ
    (opened for reading), etc."""
    if op in ("open:r",):
        return "read"
    if op in ("open:w", "open:a", "open:rw", "create", "osopen", "f.write", "f.truncate",
              "truncate", "rename", "replace", "link", "symlink"):
        return "write"
    if op in ("remove", "unlink", "rmdir"):
        return "remove"
    return op


class SeqContext(interpose.Context):
    def __init__(self, root, classify):
        super().__init__(root, classify)
        self.owner = threading.get_ident()
        self.keep_log = True

    def intercepts(self):
        return threading.get_ident() == self.owner


class Enumerator:
    def __init__(self, start, call, base, fhs=None, inst_kw=None):
        self.start, self.call = start, call
        self.inst_kw = inst_kw or INST
        self.inst = Inst(**self.inst_kw)
        self.fhs = fhs or load_hashstore()[0]
        self.base = base
        os.makedirs(base, exist_ok=True)
        self.inputs = write_inputs(self.inst, os.path.join(base, "inputs"))
        self.template = os.path.join(base, "template")
        self.root = os.path.join(base, "store")
        shutil.rmtree(self.template, ignore_errors=True)
        os.makedirs(self.template)
        d = Driver(self.inst, self.template, self.inputs, self.fhs)
        for c in STARTS[start]:
            d.call(c)
        self.hang_timeout = 15.0
        self.hangs = 0
        self.pre = absfn.abstract(self.template, self.inst)
        self.others_before = self._others(d)
        from .conc import install_yaml_cache
        install_yaml_cache()

    def _fresh(self):
        shutil.rmtree(self.root, ignore_errors=True)
        shutil.copytree(self.template, self.root)

    def _others(self, d):
        """What every pid other than the call's sees through the API (retrieve + documents)."""
        out = []
        p = self.call["pid"]
        for q in sorted(self.inst.pid):
            if q == p:
                continue
            view = [d.call(C("retrieve", q))]
            for f in sorted(self.inst.fmt):
                view.append(d.call(C("getmeta", q, fmt=f)))
            out.append({"pid": q, "view": [[r["cls"], r["data"], r["truth"]] for r in view]})
        return out

    # ---------------------------------------------------------------- op log
    def oplog(self):
        self._fresh()
        store = make_store(self.fhs, self.inst.props(self.root))
        drv = Driver(self.inst, self.root, self.inputs, self.fhs, store=store)
        ctx = SeqContext(self.root, tokens.make_classifier(self.root, self.inst))
        with interpose.active(ctx):
            res = drv.call(self.call)
        return list(ctx.log), res

    # ---------------------------------------------------------------- crash
    def crash(self, k):
        self._fresh()
        pid = os.fork()
        if pid == 0:
            try:
                store = make_store(self.fhs, self.inst.props(self.root))
                drv = Driver(self.inst, self.root, self.inputs, self.fhs, store=store)
                ctx = SeqContext(self.root, tokens.make_classifier(self.root, self.inst))
                ctx.keep_log = False

                def before(op, token, n):
                    if n == k:
                        os._exit(77)
                ctx.before = before
                with interpose.active(ctx):
                    drv.call(self.call)
            finally:
                os._exit(0)
        _, status = os.waitpid(pid, 0)
        code = os.waitstatus_to_exitcode(status)
        crashed = absfn.abstract(self.root, self.inst)
        # reopen with a fresh instance
        d = Driver(self.inst, self.root, self.inputs, self.fhs)
        others_after = self._others(d)
        rec = {"pre": self.pre, "call": self.call, "k": k, "died": code == 77,
               "crashed": crashed,
               "others": [{"pid": b["pid"], "before": b["view"], "after": a["view"]}
                          for b, a in zip(self.others_before, others_after)]}
        p = self.call["pid"]
        nores = {"cls": "-", "cid": "-", "data": "-", "truth": True}
        if p != "-":
            rec["retrieve"] = d.call(C("retrieve", p))
            rec["delete"] = d.call(C("delete", p))
            c = self.call["c"] if self.call["op"] == "store" else "a"
            rec["restore"] = d.call(C("store", p, c, "none"))
            rec["reread"] = d.call(C("retrieve", p))
        else:
            rec["retrieve"] = rec["delete"] = rec["restore"] = rec["reread"] = nores
        return rec

    # ---------------------------------------------------------------- fault
    def fault(self, k, mode, err):
        self._fresh()
        store = make_store(self.fhs, self.inst.props(self.root))
        drv = Driver(self.inst, self.root, self.inputs, self.fhs, store=store)
        ctx = SeqContext(self.root, tokens.make_classifier(self.root, self.inst))
        ctx.keep_log = False
        stuck = []
        fired = []

        def before(op, token, n):
            if op not in FAULT_OPS:
                return
            if n == k:
                fired.append((op, token))
                if mode == "persistent":
                    stuck.append((_opclass(op), ctx.cur_paths[-1]))
                raise OSError(err, os.strerror(err) + " (injected)")
            # persistent: THAT KIND of access to THAT destination keeps failing until the call
            # returns - it cannot be written (created, opened for writing, written, renamed
            # onto: shutil.move's copy fall-back fails too), or it cannot be read, or removed.
            # Failing EVERY operation on the path would make the property unsatisfiable (a
            # shared list that can be neither read nor edited cannot be rolled back).
            if stuck:
                cls = _opclass(op)
                dests = ctx.cur_paths[-1:] if cls == "write" and op in ("rename", "replace") \
                    else ctx.cur_paths
                if any((cls, p) in stuck for p in dests):
                    raise OSError(err, os.strerror(err) + " (injected, persistent)")
        ctx.before = before
        # the call runs in its own thread under a watchdog: a fault that makes the call wait
        # for a lock it already holds would otherwise hang the enumeration
        box = {}

        def runner():
            ctx.owner = threading.get_ident()
            box["res"] = drv.call(self.call)
        with interpose.active(ctx):
            th = threading.Thread(target=runner, daemon=True)
            th.start()
            th.join(self.hang_timeout)
        hung = th.is_alive()
        if hung:
            self.hangs += 1
            res = {"cls": "blocked", "cid": "-", "data": "-", "truth": True}
        else:
            res = box["res"]
        post = absfn.abstract(self.root, self.inst)
        locks = {n: list(v) for n, v in vars(store).items()
                 if isinstance(v, list) and "locked" in n}
        left = sum(len(v) for v in locks.values())
        rec = {"pre": self.pre, "call": self.call, "k": k, "mode": mode,
               "errno": _errno.errorcode.get(err, str(err)),
               "site": [fired[0][0], [list(x) for x in fired[0][1]]] if fired else None,
               "res": res, "post": post, "locksLeft": left, "locks": locks, "others": []}
        blocked = left > 0 or hung
        retry = {"cls": "-", "cid": "-", "data": "-", "truth": True}
        if not blocked and res["cls"] != "ok" and self.call["op"] in ("store", "tag"):
            box = {}

            def run():
                box["r"] = drv.call(self.call)
            t = threading.Thread(target=run, daemon=True)
            t.start()
            t.join(10)
            if t.is_alive():
                blocked = True
                retry = {"cls": "blocked", "cid": "-", "data": "-", "truth": True}
            else:
                retry = box["r"]
        # C08: "afterwards every pid, cid and metadata document that was involved can be
        # operated on again without blocking" - a delete / store / delete round on the pid of
        # the failed call (whatever the calls answer, they must come back)
        pid = self.call.get("pid", "-")
        if not blocked and pid != "-":
            cname = self.call["c"] if self.call.get("c", "-") in self.inst.content else sorted(self.inst.content)[0]
            for fu in (dict(op="delete", pid=pid, c="-", val="-", fmt="-", ver="-"),
                       dict(op="store", pid=pid, c=cname, val="none", fmt="-", ver="-"),
                       dict(op="delete", pid=pid, c="-", val="-", fmt="-", ver="-")):
                t = threading.Thread(target=lambda fu=fu: drv.call(fu), daemon=True)
                t.start()
                t.join(10)
                if t.is_alive():
                    blocked = True
                    rec["followup_blocked"] = fu["op"]
                    break
        rec["retry"] = retry
        rec["blocked"] = blocked
        return rec


KNOWN_ENV = {"USE_MULTIPROCESSING"}          # decided by C16 (Config.tla), not a placement knob
ENV_SCENARIOS = [0, 2, 4, 8, 16, 17]         # indices into SCENARIOS re-run under each variable


def discover_env():
    """Environment variables the code under test READS (configuration surface that no
    scenario would otherwise set): every string literal handed to os.environ.get /
    os.getenv / os.environ[...] (not assigned) anywhere in the package."""
    import re
    src = os.path.join(os.environ.get("HASHSTORE_SRC", "/repo/src"), "hashstore")
    names = set()
    pat = re.compile(r"""(?:environ\.get|getenv)\(\s*['"]([A-Za-z_][A-Za-z0-9_]*)['"]"""
                     r"""|environ\[\s*['"]([A-Za-z_][A-Za-z0-9_]*)['"]\s*\](?!\s*=[^=])""")
    for dp, _, fns in os.walk(src):
        for fn in fns:
            if fn.endswith(".py"):
                with open(os.path.join(dp, fn), encoding="utf-8", errors="replace") as f:
                    for m in pat.finditer(f.read()):
                        names.add(m.group(1) or m.group(2))
    return sorted(names - KNOWN_ENV)


def other_device_dir(ref):
    """A fresh directory on a file system other than `ref`'s (so that a rename from it to the
    store cannot be atomic), or None when this machine has only one writable device."""
    import tempfile
    dev = os.stat(ref).st_dev
    for cand in (tempfile.gettempdir(), "/var/tmp", "/tmp", os.path.expanduser("~"), "/dev/shm"):
        try:
            if os.path.isdir(cand) and os.access(cand, os.W_OK) and os.stat(cand).st_dev != dev:
                return tempfile.mkdtemp(prefix="hsverif.env.", dir=cand)
        except OSError:
            continue
    return None


def _enumerate(args):
    start, call, idx, tier, errnos, what = args[:6]
    envvar = args[6] if len(args) > 6 else None
    base = os.path.join(tlc.scratch_root(), "cf.%d.%d" % (os.getpid(), idx))
    t0 = time.time()
    envdir, saved = None, None
    if envvar:
        os.makedirs(base, exist_ok=True)
        envdir = other_device_dir(base)
        if envdir is None:
            return None
        saved = os.environ.get(envvar)
        os.environ[envvar] = envdir
    try:
        en = Enumerator(start, call, base)
        log, res0 = en.oplog()
        crashes, faults = [], []
        if "crash" in what:
            for k in range(1, len(log) + 1):
                r = en.crash(k)
                n, op, tok, out = log[k - 1]
                r["site"] = [op, [list(x) for x in tok]]
                crashes.append(r)
        if "fault" in what:
            for (n, op, tok, out) in log:
                if op not in FAULT_OPS:
                    continue
                for mode in ("once", "persistent"):
                    for e in errnos:
                        if en.hangs >= 3:
                            continue          # three hung calls are evidence enough
                        faults.append(en.fault(n, mode, e))
        return {"start": start, "call": call, "ops": len(log), "env": envvar,
                "fault_sites": sum(1 for x in log if x[1] in FAULT_OPS),
                "fault_free_result": res0["cls"],
                "crashes": crashes, "faults": faults, "wall": time.time() - t0,
                "oplog": [[op, [list(x) for x in tok], out] for (n, op, tok, out) in log]}
    finally:
        shutil.rmtree(base, ignore_errors=True)
        if envvar:
            if saved is None:
                os.environ.pop(envvar, None)
            else:
                os.environ[envvar] = saved
            if envdir:
                shutil.rmtree(envdir, ignore_errors=True)


def run(tier, what=("crash", "fault"), only=None):
    errnos = [_errno.EIO] if tier == "quick" else [_errno.EIO, _errno.ENOSPC, _errno.EACCES]
    jobs = [(s, c, i, tier, errnos, what) for i, (s, c) in enumerate(SCENARIOS)
            if only is None or only in ("%s/%s" % (s, cstr(c)))]
    # configuration surface: each environment variable the package reads (other than the ones a
    # property of its own decides) names a directory on ANOTHER device; the placement-sensitive
    # scenarios are enumerated again under it (crash points and one-off faults)
    if only is None:
        for var in discover_env():
            for si in ENV_SCENARIOS:
                s, c = SCENARIOS[si]
                jobs.append((s, c, len(jobs), tier, errnos[:1], what, var))
    with multiprocessing.get_context("fork").Pool(min(16, len(jobs))) as pool:
        return [r for r in pool.map(_enumerate, jobs, chunksize=1) if r is not None]


def judge(results):
    inst = Inst(**INST)
    crashes, faults, cidx, fidx = [], [], [], []
    for ri, r in enumerate(results):
        for xi, x in enumerate(r["crashes"]):
            crashes.append({k: x[k] for k in ("pre", "call", "crashed", "others", "retrieve",
                                              "delete", "restore", "reread")})
            cidx.append((ri, xi))
        for xi, x in enumerate(r["faults"]):
            faults.append({k: x[k] for k in ("pre", "call", "res", "post", "locksLeft", "retry",
                                              "blocked", "others", "mode")})
            fidx.append((ri, xi))
    consts = dict(inst.constants())
    consts["Ops"] = ALL_OPS
    work = os.path.join(tlc.scratch_root(), "cfj.%d" % os.getpid())
    os.makedirs(work, exist_ok=True)
    tf = os.path.join(work, "obs.json")
    with open(tf, "w") as f:
        json.dump({"crashes": crashes, "faults": faults}, f)
    cfg = tlc.fill_template("TraceFault.cfg.tmpl", consts)
    r = tlc.run_tlc("TraceFault", cfg_text=cfg, workers=8, env={"TRACE_FILE": tf})
    shutil.rmtree(work, ignore_errors=True)
    n = len(crashes) + len(faults)
    judged = r.printed("JUDGED")
    if not r.ok or not judged or judged[0].split()[0] != str(n):
        raise RuntimeError("TraceFault did not judge everything (%s of %d)\n%s"
                           % (judged, n, r.out[-3000:]))
    viol = []
    for l in r.printed("VIOL"):
        name, k = l.split()
        k = int(k)
        if k <= len(crashes):
            viol.append((name, "crash") + cidx[k - 1])
        else:
            viol.append((name, "fault") + fidx[k - 1 - len(crashes)])
    return viol, r, len(crashes), len(faults)


def report(v, results, viol, props, n_crash, n_fault):
    for name, kind, ri, xi in viol:
        prop = name.split("_")[0]
        r = results[ri]
        x = r["crashes"][xi] if kind == "crash" else r["faults"][xi]
        site = x.get("site")
        desc = {"clause": name, "kind": kind, "start": r["start"], "call": cstr(r["call"]),
                "op": r["call"]["op"], "env": r.get("env"),
                "site_op": site[0] if site else None,
                "site_path": [t[0] for t in site[1]] if site else None}
        if kind == "fault":
            desc["mode"] = x["mode"]
            desc["res"] = x["res"]["cls"]
        replay = {"kind": kind, "property": prop, "clause": name, "start": r["start"],
                  "setup": STARTS[r["start"]], "call": r["call"], "k": x["k"], "record": x,
                  "inst": INST, "env": r.get("env"),
                  "how": "(if `env` is set: export it naming a directory on another device) run `setup` on a fresh store, then `call` with a crash / OSError "
                         "before its k-th intercepted file-system operation"}
        if prop in props:
            v.violation(desc, replay)
        else:
            v.notes.append({"other_property_clause_false": name, "start": r["start"],
                            "call": cstr(r["call"]), "kind": kind})
    cov = v.coverage
    cov["scenarios"] = len(results)
    cov["crash_points"] = n_crash
    cov["fault_injections"] = n_fault
    cov["evaluations"] = n_crash + n_fault
    distinct = set()
    for r in results:
        for x in r["crashes"]:
            distinct.add(("c", r["start"], cstr(r["call"]), json.dumps(x["crashed"], sort_keys=True)))
        for x in r["faults"]:
            distinct.add(("f", r["start"], cstr(r["call"]), x["mode"], x["res"]["cls"],
                          json.dumps(x["post"], sort_keys=True)))
    cov["distinct_nontrivial"] = len(distinct)
    cov["rule"] = ("one crash before each intercepted file-system operation of each scenario's call; "
                   "one injected OSError at each fault site x {once, persistent} x errnos; distinct = "
                   "distinct (scenario, resulting abstract state / result class)")
    cov["per_scenario"] = [{"start": r["start"], "call": cstr(r["call"]), "ops": r["ops"],
                            "fault_sites": r["fault_sites"], "wall_s": round(r["wall"], 1)}
                           for r in results]
    cov["exhaustive"] = True
    cov["env_variables_discovered"] = discover_env()
    cov["scenarios_under_env_variable"] = sum(1 for r in results if r.get("env"))
    if results:
        r = results[0]
        cov["samples"] = [{"start": r["start"], "call": r["call"], "oplog": r["oplog"][:60]}]
        if r["crashes"]:
            x = r["crashes"][len(r["crashes"]) // 2]
            cov["samples"].append({"crash_before": x["site"], "crashed_state": x["crashed"],
                                   "retrieve": x["retrieve"]["cls"], "delete": x["delete"]["cls"],
                                   "restore": x["restore"]["cls"]})
