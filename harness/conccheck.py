"""C07 / C08 / C09 / C12 (and C16 through the mp branches): explore interleavings of the
real code per scenario, then let TLC (TraceLin) judge outcomes and intermediate states."""
import itertools
import json
import multiprocessing
import os
import shutil
import time

from . import conc, tlc
from .ids import Inst
from .report import Verdict


def C(op, pid="-", c="-", val="-", fmt="-", ver="-"):
    return dict(op=op, pid=pid, c=c, val=val, fmt=fmt, ver=ver)


def cstr(call):
    return ":".join(x for x in (call["op"], call["pid"], call["c"], call["val"],
                                call["fmt"], call["ver"]) if x != "-")


OBJ_INST = dict(pids=["p1", "p2", "p3"], contents=["a", "b"], extras=["x"], fmts=["fD"],
                vers=["v1"])
META_INST = dict(pids=["p1", "p2"], contents=["a"], extras=[], fmts=["fD", "f2"],
                 vers=["v1", "v2"])
ALL_OPS = ["store", "storenp", "tag", "delete", "dii", "retrieve", "hex", "putmeta",
           "getmeta", "delmeta", "bad"]

OBJ_STARTS = {
    "empty": [],
    "p1a": [C("store", "p1", "a", "none")],
    "shared": [C("store", "p1", "a", "none"), C("store", "p2", "a", "none")],
    "unref": [C("storenp", c="a")],
    "missing": [C("tag", "p1", "a")],
}
OBJ_MENU = [C("store", "p1", "a", "none"), C("store", "p1", "b", "none"),
            C("store", "p2", "a", "none"), C("store", "p2", "a", "badsum"), C("storenp", c="a"),
            C("tag", "p1", "a"), C("tag", "p1", "b"), C("tag", "p2", "a"),
            C("delete", "p1"), C("delete", "p2"),
            C("dii", c="a", val="badsum"), C("dii", c="a", val="good")]

OBJ_QUICK = [
    ("p1a", [C("store", "p2", "a", "none"), C("delete", "p1")]),
    ("unref", [C("store", "p1", "a", "none"), C("dii", c="a", val="badsum")]),
    ("empty", [C("store", "p1", "a", "none"), C("store", "p2", "a", "none")]),
    ("empty", [C("store", "p1", "a", "none"), C("store", "p1", "b", "none")]),
    ("empty", [C("tag", "p1", "a"), C("tag", "p1", "b")]),
    ("shared", [C("delete", "p1"), C("delete", "p2")]),
    ("p1a", [C("delete", "p1"), C("tag", "p2", "a")]),
    ("p1a", [C("store", "p1", "b", "none"), C("delete", "p1")]),
    ("unref", [C("tag", "p1", "a"), C("dii", c="a", val="badsum")]),
    ("p1a", [C("delete", "p1"), C("delete", "p1")]),
    ("empty", [C("storenp", c="a"), C("store", "p1", "a", "none")]),
    ("p1a", [C("tag", "p2", "a"), C("tag", "p3", "a")]),
    ("missing", [C("delete", "p1"), C("store", "p2", "a", "none")]),
    ("p1a", [C("tag", "p1", "b"), C("delete", "p1")]),
]

META_STARTS = {
    "absent": [C("store", "p1", "a", "none")],
    "present": [C("store", "p1", "a", "none"), C("putmeta", "p1", fmt="fD", ver="v1")],
    "two": [C("store", "p1", "a", "none"), C("putmeta", "p1", fmt="fD", ver="v1"),
            C("putmeta", "p1", fmt="f2", ver="v1")],
}
META_MENU = [C("putmeta", "p1", fmt="fD", ver="v1"), C("putmeta", "p1", fmt="fD", ver="v2"),
             C("putmeta", "p1", fmt="f2", ver="v2"),
             C("getmeta", "p1", fmt="fD"), C("delmeta", "p1", fmt="fD"),
             C("delmeta", "p1", fmt="nofmt"), C("delete", "p1")]
META_QUICK = [
    ("present", [C("putmeta", "p1", fmt="fD", ver="v2"), C("getmeta", "p1", fmt="fD")]),
    ("absent", [C("putmeta", "p1", fmt="fD", ver="v1"), C("putmeta", "p1", fmt="fD", ver="v2")]),
    ("present", [C("putmeta", "p1", fmt="fD", ver="v2"), C("delmeta", "p1", fmt="fD")]),
    ("present", [C("putmeta", "p1", fmt="fD", ver="v2"), C("delmeta", "p1", fmt="nofmt")]),
    ("present", [C("delmeta", "p1", fmt="fD"), C("delmeta", "p1", fmt="fD")]),
    ("present", [C("delmeta", "p1", fmt="nofmt"), C("delmeta", "p1", fmt="nofmt")]),
    ("two", [C("delmeta", "p1", fmt="nofmt"), C("delmeta", "p1", fmt="fD")]),
    ("present", [C("delete", "p1"), C("putmeta", "p1", fmt="fD", ver="v2")]),
    ("two", [C("delete", "p1"), C("delmeta", "p1", fmt="nofmt")]),
    ("present", [C("getmeta", "p1", fmt="fD"), C("delmeta", "p1", fmt="fD")]),
    ("present", [C("putmeta", "p1", fmt="f2", ver="v2"), C("delmeta", "p1", fmt="nofmt")]),
    ("present", [C("putmeta", "p1", fmt="f2", ver="v2"), C("delmeta", "p1", fmt="fD")]),
    ("present", [C("delete", "p1"), C("getmeta", "p1", fmt="fD")]),
    # different documents: must not interfere at all
    ("present", [C("putmeta", "p1", fmt="fD", ver="v2"), C("putmeta", "p1", fmt="f2", ver="v1")]),
    ("absent", [C("putmeta", "p1", fmt="fD", ver="v2"), C("putmeta", "p2", fmt="fD", ver="v1")]),
    ("present", [C("putmeta", "p2", fmt="fD", ver="v2"), C("delmeta", "p1", fmt="nofmt")]),
]


def scenarios(family, tier, mode="th"):
    out = []
    if family == "R":
        return reader_scenarios(mode)
    if family == "C07":
        inst, starts, quick, menu = OBJ_INST, OBJ_STARTS, OBJ_QUICK, OBJ_MENU
    else:
        inst, starts, quick, menu = META_INST, META_STARTS, META_QUICK, META_MENU
    seen = set()

    def add(start, calls, pb=None):
        key = (start, tuple(sorted(cstr(c) for c in calls)))
        if key in seen:
            return
        seen.add(key)
        name = "%s/%s/%s" % (family, start, "|".join(cstr(c) for c in calls))
        threads = {"t%d" % (i + 1): c for i, c in enumerate(calls)}
        sc = conc.Scenario(name, inst, starts[start], threads, mode)
        sc.family, sc.start, sc.pbound = family, start, pb
        out.append(sc)
    for start, calls in quick:
        add(start, calls)

    def related(a, b):
        pa, pb = a["pid"], b["pid"]
        ca = a["c"] if a["c"] != "-" else None
        cb = b["c"] if b["c"] != "-" else None
        if pa != "-" and pa == pb:
            return True
        if ca and cb and ca == cb:
            return True
        # a delete touches the cid its pid is bound to in the start state
        bound = {"p1a": {"p1": "a"}, "shared": {"p1": "a", "p2": "a"}, "missing": {"p1": "a"},
                 "absent": {"p1": "a"}, "present": {"p1": "a"}, "two": {"p1": "a"}}
        return None  # decided per start below

    bound = {"empty": {}, "unref": {}, "p1a": {"p1": "a"}, "shared": {"p1": "a", "p2": "a"},
             "missing": {"p1": "a"}}

    def cids(call, start):
        cs = set()
        if call["c"] != "-":
            cs.add(call["c"])
        if call["op"] == "delete":
            c = bound.get(start, {}).get(call["pid"])
            if c:
                cs.add(c)
        return cs

    if family == "C07":
        qmenu = [C("store", "p1", "a", "none"), C("store", "p2", "a", "none"),
                 C("store", "p1", "b", "none"), C("store", "p2", "a", "badsum"),
                 C("tag", "p1", "a"), C("tag", "p2", "a"),
                 C("delete", "p1"), C("delete", "p2"), C("dii", c="a", val="badsum")]
        use = qmenu if tier == "quick" else menu
        for start in starts:
            for a, b in itertools.combinations_with_replacement(use, 2):
                if a["op"] == "dii" and b["op"] == "dii":
                    continue
                if start in ("empty", "missing") and "dii" in (a["op"], b["op"]):
                    continue      # delete_if_invalid_object needs a stored object
                samepid = a["pid"] != "-" and a["pid"] == b["pid"]
                samecid = bool(cids(a, start) & cids(b, start))
                if tier == "thorough" or samepid or samecid:
                    add(start, [a, b])
    else:
        if tier == "thorough":
            for start in starts:
                for a, b in itertools.combinations_with_replacement(menu, 2):
                    add(start, [a, b])
    # wrong-wakeup triples: one holder, one waiter on the same identifier, and a third call on
    # ANOTHER identifier of the same lock table whose release notifies the shared condition
    if family == "C07":
        # cid table: waiter = tag / delete / delete_if_invalid
        add("p1a", [C("delete", "p1"), C("tag", "p2", "a"), C("store", "p3", "b", "none")], pb=2)
        add("p1a", [C("tag", "p2", "a"), C("delete", "p1"), C("store", "p3", "b", "none")], pb=2)
        add("p1a", [C("delete", "p1"), C("dii", c="a", val="badsum"), C("store", "p3", "b", "none")], pb=2)
        # object-pid table: waiter = delete
        add("empty", [C("store", "p1", "a", "none"), C("delete", "p1"),
                      C("store", "p2", "b", "none")], pb=2)
        # a store whose tagging is rejected because a third caller bound the pid meanwhile, while
        # the object it found is being removed (fix F12)
        add("unref", [C("store", "p1", "a", "none"), C("dii", c="a", val="badsum"), C("tag", "p1", "a")], pb=2)
        add("p1a", [C("delete", "p1"), C("tag", "p2", "a"), C("store", "p2", "a", "none")], pb=2)
        # a delete that found the object missing, overtaken by a store and a delete of the same
        # content (fix F13)
        add("missing", [C("delete", "p1"), C("store", "p2", "a", "none"), C("delete", "p2")], pb=2)
        # reference-pid table: waiter = tag / delete
        add("empty", [C("tag", "p1", "a"), C("tag", "p1", "b"), C("tag", "p2", "b")], pb=2)
        add("empty", [C("tag", "p1", "a"), C("delete", "p1"), C("tag", "p2", "b")], pb=2)
    else:
        # document table: waiter = store_metadata / delete_metadata(format) / delete_metadata(all)
        add("absent", [C("putmeta", "p1", fmt="fD", ver="v1"), C("putmeta", "p1", fmt="fD", ver="v2"),
                       C("putmeta", "p1", fmt="f2", ver="v2")], pb=2)
        add("present", [C("delmeta", "p1", fmt="fD"), C("delmeta", "p1", fmt="fD"),
                        C("putmeta", "p1", fmt="f2", ver="v2")], pb=2)
        add("present", [C("putmeta", "p1", fmt="fD", ver="v2"), C("delmeta", "p1", fmt="nofmt"),
                        C("putmeta", "p1", fmt="f2", ver="v2")], pb=2)
    if tier == "thorough":
        # every quick pair with every call of the menu as a third participant
        for start, calls in quick:
            for c in menu:
                if family == "C07" and start in ("empty", "missing") and \
                        any(x["op"] == "dii" for x in calls + [c]):
                    continue
                add(start, calls + [c], pb=2)
    return out


def reader_scenarios(mode="th"):
    """retrieve_object as a concurrent participant.  No property promises linearizable readers
    (C07 lists the four mutating calls), so these scenarios are used for step-level conformance
    with the implementation-shaped model, for C09's intermediate states, and (family "R") for
    C01's promise that a stored pid stays retrievable "whatever calls are made on other pids
    in between": TraceLin's C01_ConcRetrieve looks only at readers of a pid nobody deletes."""
    out = []
    for start, calls in [("p1a", [C("retrieve", "p1"), C("delete", "p1")]),
                         ("p1a", [C("retrieve", "p1"), C("store", "p2", "a", "none")]),
                         ("shared", [C("retrieve", "p1"), C("delete", "p2")]),
                         ("empty", [C("retrieve", "p1"), C("store", "p1", "a", "none")]),
                         ("unref", [C("retrieve", "p1"), C("tag", "p1", "a")]),
                         ("p1a", [C("retrieve", "p1"), C("dii", c="a", val="badsum")])]:
        name = "R/%s/%s" % (start, "|".join(cstr(c) for c in calls))
        sc = conc.Scenario(name, OBJ_INST, OBJ_STARTS[start],
                           {"t%d" % (i + 1): c for i, c in enumerate(calls)}, mode)
        sc.family, sc.start, sc.pbound = "R", start, None
        out.append(sc)
    return out


def _followups(sc):
    """Calls on every identifier involved, which must complete afterwards (C08)."""
    pids = sorted({c["pid"] for c in list(sc.threads.values()) + sc.setup if c["pid"] != "-"})
    f = []
    for p in pids:
        f.append(C("delete", p))
        f.append(C("store", p, "a", "none"))
        f.append(C("putmeta", p, fmt="fD", ver="v1"))
        f.append(C("delmeta", p, fmt="nofmt"))
    return f


def _explore(args):
    sc, idx, max_runs = args
    base = os.path.join(tlc.scratch_root(), "conc.%d.%d" % (os.getpid(), idx))
    t0 = time.time()
    try:
        ex = conc.Explorer(sc, base, max_runs=max_runs, preemption_bound=sc.pbound)
        ex.explore()
        outs = []
        for k, e in ex.outcomes.items():
            rec = e["rec"]
            # C08 follow-up: replay the witness schedule, then calls on the same identifiers
            blocked = False
            fres = []
            if rec["outcome"] == "done":
                r2 = ex.execute(tuple(rec["schedule"]), None, collect=False,
                                followups=_followups(sc))
                fres = r2["results"].get("followups", [])
                blocked = any(x.get("cls") == "blocked" for x in fres)
            outs.append({"rec": rec, "count": e["count"], "blocked": blocked,
                         "followups": [x.get("cls") for x in fres]})
        res = {"scenario": sc.describe(), "family": sc.family, "start_abs": ex.start_abs,
               "outcomes": outs, "states": [v for v in ex.absstates.values()],
               "runs": ex.runs, "steps": ex.steps, "visited": len(ex.visited),
               "exhaustive": ex.exhaustive, "nondet": len(ex.nondeterminism),
               "wall": time.time() - t0, "inst": sc.inst_kw}
    finally:
        shutil.rmtree(base, ignore_errors=True)
    return res


def tree_key(*extra):
    """Hash of /repo's current source tree + this harness + spec (cache key)."""
    import hashlib
    h = hashlib.sha256()
    src = os.environ.get("HASHSTORE_SRC", "/repo/src")
    here = os.path.dirname(os.path.abspath(__file__))
    for base in (src, here, tlc.SPEC):
        for dirpath, dirnames, filenames in sorted(os.walk(base)):
            dirnames.sort()
            for fn in sorted(filenames):
                if fn.endswith((".py", ".tla", ".tmpl", ".cfg")):
                    h.update(fn.encode())
                    with open(os.path.join(dirpath, fn), "rb") as f:
                        h.update(f.read())
    h.update(repr(extra).encode())
    return h.hexdigest()[:24]


def run_family(family, tier, mode="th", max_runs=None, procs=16, only=None):
    """Explore all scenarios of a family. Results are cached under out/cache keyed by the
    content of /repo/src, the harness and the specs, so C07/C08/C09 (and C12/C08/C09) checks
    run back to back share one exploration of the SAME tree; any source change misses."""
    from .report import OUT
    import pickle
    cdir = os.path.join(OUT, "cache")
    os.makedirs(cdir, exist_ok=True)
    ck = os.path.join(cdir, "conc-%s.pkl" % tree_key(family, tier, mode, max_runs, only))
    if os.environ.get("VERIF_NOCACHE") != "1" and os.path.exists(ck):
        try:
            with open(ck, "rb") as f:
                results = pickle.load(f)
            for r in results:
                r["cached"] = True
            return results
        except Exception:  # noqa
            pass
    results = _run_family(family, tier, mode, max_runs, procs, only)
    for r in results:
        r["cached"] = False
    for old in os.listdir(cdir):
        if old.startswith("conc-") and os.path.getmtime(os.path.join(cdir, old)) < time.time() - 6 * 3600:
            os.remove(os.path.join(cdir, old))
    with open(ck + ".tmp", "wb") as f:
        pickle.dump(results, f)
    os.replace(ck + ".tmp", ck)
    return results


def _run_family(family, tier, mode="th", max_runs=None, procs=16, only=None):
    scs = scenarios(family, tier, mode)
    if only:
        scs = [s for s in scs if only in s.name]
    if max_runs is None:
        max_runs = 2500 if tier == "quick" else 40000
    # 3-thread scenarios are preemption-bounded; their budget is fixed (F13 needs ~4 000 runs)
    jobs = [(sc, i, max_runs if len(sc.threads) == 2 else (5000 if tier == "quick" else 8000))
            for i, sc in enumerate(scs)]
    with multiprocessing.get_context("fork").Pool(min(procs, len(jobs))) as pool:
        results = pool.map(_explore, jobs, chunksize=1)
    # second phase: 2-thread scenarios that exhausted their budget are explored again with ALL
    # processes sharing one visited table, until exhaustive (or a much larger budget)
    big = 30000 if tier == "quick" else 200000
    for i, r in enumerate(results):
        sc = scs[i]
        if r["exhaustive"] or len(sc.threads) != 2 or sc.pbound is not None:
            continue
        results[i] = _explore_big(sc, i, big, procs)
    return results


def _explore_big(sc, idx, budget, procs):
    base = os.path.join(tlc.scratch_root(), "concbig.%d.%d" % (os.getpid(), idx))
    t0 = time.time()
    try:
        pr = conc.explore_parallel(sc, base, procs=procs, max_runs=budget)
        ex = conc.Explorer(sc, os.path.join(base, "fu"), max_runs=0)
        ex.probe()
        outs = []
        for k, e in pr["outcomes"].items():
            rec = e["rec"]
            blocked, fres = False, []
            if rec["outcome"] == "done":
                r2 = ex.execute(tuple(rec["schedule"]), None, collect=False, followups=_followups(sc))
                fres = r2["results"].get("followups", [])
                blocked = any(x.get("cls") == "blocked" for x in fres)
            outs.append({"rec": rec, "count": e["count"], "blocked": blocked,
                         "followups": [x.get("cls") for x in fres]})
        return {"scenario": sc.describe(), "family": sc.family, "start_abs": pr["start_abs"],
                "outcomes": outs, "states": [v for v in pr["absstates"].values()],
                "runs": pr["runs"], "steps": pr["steps"], "visited": pr["visited"],
                "exhaustive": pr["exhaustive"], "nondet": pr["nondet"],
                "wall": time.time() - t0, "inst": sc.inst_kw, "parallel": True}
    finally:
        shutil.rmtree(base, ignore_errors=True)


def judge(results, inst_kw):
    """TLC (TraceLin) judges all outcomes and intermediate states of one family."""
    inst = Inst(**inst_kw)
    outcomes, states, index, sindex = [], [], [], []
    for ri, r in enumerate(results):
        tids = sorted(r["scenario"]["threads"])
        for oi, o in enumerate(r["outcomes"]):
            rec = o["rec"]
            outcomes.append({
                "family": r["family"], "start": r["start_abs"],
                "calls": [r["scenario"]["threads"][t] for t in tids],
                "results": [rec["results"][t] for t in tids],
                "final": rec["final"],
                "locksLeft": sum(len(v) for v in rec["locks"].values()),
                "deadlock": rec["outcome"] != "done",
                "blocked": bool(o["blocked"])})
            index.append(("outcome", ri, oi))
        for si, (a, wit) in enumerate(r["states"]):
            states.append({"abs": a})
            sindex.append(("state", ri, si))
    consts = dict(inst.constants())
    consts["Ops"] = ALL_OPS
    work = os.path.join(tlc.scratch_root(), "lin.%d" % os.getpid())
    os.makedirs(work, exist_ok=True)
    tf = os.path.join(work, "obs.json")
    with open(tf, "w") as f:
        json.dump({"outcomes": outcomes, "states": states}, f)
    cfg = tlc.fill_template("TraceLin.cfg.tmpl", consts)
    r = tlc.run_tlc("TraceLin", cfg_text=cfg, workers=8, env={"TRACE_FILE": tf})
    shutil.rmtree(work, ignore_errors=True)
    judged = r.printed("JUDGED")
    n = len(outcomes) + len(states)
    if not r.ok or not judged or judged[0].split()[0] != str(n):
        raise RuntimeError("TraceLin did not judge everything (%s of %d)\n%s"
                           % (judged, n, r.out[-3000:]))
    viol = []
    for l in r.printed("VIOL"):
        name, k = l.split()
        k = int(k)
        kind, ri, xi = index[k - 1] if k <= len(outcomes) else sindex[k - 1 - len(outcomes)]
        viol.append((name, kind, ri, xi))
    return viol, r, len(outcomes), len(states)


def final_sig(rec):
    f = rec["final"]
    return json.dumps({"obj": f["obj"], "pref": f["pref"],
                       "cref": {c: v["pids"] if v["has"] else None for c, v in f["cref"].items()},
                       "doc": f["doc"], "junk": f["junk"]}, sort_keys=True)


def report(v, results, viol, props, tlcres, n_out, n_states):
    for name, kind, ri, xi in viol:
        prop = name.split("_")[0]
        r = results[ri]
        if kind == "outcome":
            o = r["outcomes"][xi]
            rec = o["rec"]
            tids = sorted(r["scenario"]["threads"])
            calls = [r["scenario"]["threads"][t] for t in tids]
            shape = "other"
            for t, c in zip(tids, calls):
                if c["op"] == "store" and rec["results"][t]["cls"] == "ok" \
                        and rec["final"]["obj"].get(c["c"]) == "absent" \
                        and rec["final"]["pref"].get(c["pid"]) == c["c"]:
                    shape = "store_ok_but_" + rec.get("facts", {}).get(t, "object_removed")
            desc = {"clause": name, "scenario": r["scenario"]["name"],
                    "ops": sorted(c["op"] for c in calls), "shape": shape,
                    "results": [rec["results"][t]["cls"] for t in tids],
                    "final": final_sig(rec), "outcome": rec["outcome"]}
            replay = {"kind": "concurrent", "property": prop, "clause": name,
                      "scenario": r["scenario"], "inst": r["inst"],
                      "schedule": rec["schedule"], "results": rec["results"],
                      "final": rec["final"], "junk": rec["junk"], "locks": rec["locks"],
                      "pending": rec["pending"], "followups": o["followups"],
                      "how": "run the scenario's setup calls, then its threads under the "
                             "cooperative scheduler following `schedule` (thread ids)"}
        else:
            a, wit = r["states"][xi]
            desc = {"clause": name, "scenario": r["scenario"]["name"],
                    "state": json.dumps(a, sort_keys=True)}
            replay = {"kind": "concurrent-state", "property": prop, "clause": name,
                      "scenario": r["scenario"], "inst": r["inst"], "schedule": wit,
                      "state": a}
        if prop in props:
            v.violation(desc, replay)
        else:
            v.notes.append({"other_property_clause_false": name,
                            "scenario": r["scenario"]["name"]})
    cov = v.coverage
    cov["scenarios"] = cov.get("scenarios", 0) + len(results)
    cov["evaluations"] = cov.get("evaluations", 0) + sum(r["runs"] for r in results)
    cov["scheduler_steps"] = cov.get("scheduler_steps", 0) + sum(r["steps"] for r in results)
    cov["states"] = cov.get("states", 0) + sum(r["visited"] for r in results)
    cov["transitions"] = cov.get("transitions", 0) + sum(r["steps"] for r in results)
    cov["traces_validated_against_impl"] = cov.get("traces_validated_against_impl", 0) + n_out
    cov["distinct_terminal_outcomes"] = cov.get("distinct_terminal_outcomes", 0) + n_out
    cov["distinct_intermediate_abs_states"] = cov.get("distinct_intermediate_abs_states", 0) + n_states
    cov["distinct_nontrivial"] = cov["distinct_terminal_outcomes"]
    cov["non_exhaustive_scenarios"] = cov.get("non_exhaustive_scenarios", []) + \
        [r["scenario"]["name"] for r in results if not r["exhaustive"]]
    cov["exhaustive"] = not cov["non_exhaustive_scenarios"]
    cov["exploration_reused_from_cache_for_same_tree"] = any(r.get("cached") for r in results)
    cov["exploration_wall_s"] = round(cov.get("exploration_wall_s", 0) + sum(r["wall"] for r in results), 1)
    cov["nondeterministic_replays"] = cov.get("nondeterministic_replays", 0) + \
        sum(r["nondet"] for r in results)
    cov.setdefault("per_scenario", []).extend(
        [{"name": r["scenario"]["name"], "runs": r["runs"], "states": r["visited"],
          "outcomes": len(r["outcomes"]), "wall_s": round(r["wall"], 1),
          "exhaustive": r["exhaustive"]} for r in results])
    if results and results[0]["outcomes"]:
        o = results[0]["outcomes"][0]["rec"]
        cov.setdefault("samples", []).append(
            {"scenario": results[0]["scenario"], "schedule": o["schedule"],
             "results": {t: x["cls"] for t, x in o["results"].items() if isinstance(x, dict)},
             "final": o["final"]})
    if any(r["nondet"] for r in results):
        v.incomplete("replay of a schedule prefix diverged (harness nondeterminism) in %s"
                     % ", ".join(r["scenario"]["name"] for r in results if r["nondet"])[:400])
