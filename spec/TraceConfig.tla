----------------------------- MODULE TraceConfig -----------------------------
(* code -> spec for C14: every record is one (directory state, supplied properties) attempt
   on the real FileHashStore; TLC evaluates the decision and the side-effect clauses. *)
EXTENDS Config, TLC, Json, IOUtils, TLCExt, Sequences

Obs == JsonDeserialize(IOEnv.TRACE_FILE)
N   == Len(Obs.records)
VARIABLE k
Init == k = 0
Next == k = 0 /\ k' \in 1..N
Spec == Init /\ [][Next]_k
R == Obs.records[k]
Log(tag, name) == PrintT(tag \o " " \o name \o " " \o ToString(k))
Judge(name, ok) == k = 0 \/ ok \/ Log("VIOL", name)

\* opening succeeds exactly when the property says so
I_C14_AcceptIff == Judge("C14_AcceptIff", R.accepted = OpenOK(R.dirstate, R.made, R.supplied))
\* refusal is an error and creates / modifies nothing (files and directories)
I_C14_Refusal == Judge("C14_RefusalTouchesNothing",
                       ~R.accepted => (R.fs = "same" /\ R.raised))
\* an accepted reopen sees all existing data, addressed as before, and leaves it alone
I_C14_Reopen == Judge("C14_AcceptedReopenSeesData",
                      (R.accepted /\ R.dirstate = "created") => (R.dataVisible /\ R.fs \in {"same"}))
\* an accepted creation records the configuration under the documented keys
I_C14_Create == Judge("C14_CreationRecordsConfig",
                      (R.accepted /\ R.dirstate \in {"nopath", "emptydir"}) => R.yamlMatches)
AllJudged == PrintT("JUDGED " \o ToString(TLCGet("stats").distinct - 1) \o " OF " \o ToString(N))
=============================================================================
