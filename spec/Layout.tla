-------------------------------- MODULE Layout --------------------------------
(***************************************************************************)
(* C15 - the published HashStore on-disk layout, written independently of  *)
(* the implementation from the README:                                     *)
(*   objects/<shard(cid)>                                                  *)
(*   refs/pids/<shard(H(pid))>          content: the cid, nothing else     *)
(*   refs/cids/<shard(cid)>             content: one pid per '\n'-terminated line *)
(*   metadata/<shard(H(pid))>/<H(pid + format_id)>                         *)
(*   hashstore.yaml with the documented keys                               *)
(* shard(d) = `depth` tokens of `width` characters, then the remainder;    *)
(* empty tokens are dropped.  Digests and identifiers are sequences of     *)
(* one-character strings; H(.) values are supplied by the harness (hashlib *)
(* is the trusted reference for digests), the layout is computed HERE.     *)
(***************************************************************************)
EXTENDS Naturals, Sequences

Min(a, b) == IF a < b THEN a ELSE b

Shard(dg, depth, width) ==
  LET n    == Len(dg)
      tok(i) == SubSeq(dg, Min(n, (i - 1) * width) + 1, Min(n, i * width))
      head == [i \in 1..depth |-> tok(i)]
      rest == SubSeq(dg, Min(n, depth * width) + 1, n)
  IN SelectSeq(head \o <<rest>>, LAMBDA t : t # <<>>)

\* a location = the fixed directory (a string) and the tokens below it (character sequences)
ObjPath(cid, d, w)            == [top |-> "objects",   tokens |-> Shard(cid, d, w)]
PidRefPath(hpid, d, w)        == [top |-> "refs/pids", tokens |-> Shard(hpid, d, w)]
CidRefPath(cid, d, w)         == [top |-> "refs/cids", tokens |-> Shard(cid, d, w)]
DocPath(hpid, hpidfmt, d, w)  == [top |-> "metadata",  tokens |-> Shard(hpid, d, w) \o <<hpidfmt>>]

RECURSIVE Lines(_)
Lines(pids) == IF pids = <<>> THEN <<>> ELSE Head(pids) \o <<"\n">> \o Lines(Tail(pids))
PidRefContent(cid)  == cid
CidRefContent(pids) == Lines(pids)

YamlKeys == {"store_depth", "store_width", "store_algorithm", "store_metadata_namespace",
             "store_default_algo_list"}
DefaultAlgoList == <<"MD5", "SHA-1", "SHA-256", "SHA-384", "SHA-512">>
=============================================================================
