#!/usr/bin/env python3
"""Copy the behaviour-preserving changes and the result of tools_benign.py into seeded/benign/."""
import json, os, shutil, sys, glob
for root, out, prefix in (("/tmp/benign", "RESULT.md", ""), ("/tmp/benign2", "RESULT2.md", "")):
    rf = os.path.join(root, "result.json")
    if not os.path.exists(rf):
        continue
    res = json.load(open(rf))
    os.makedirs("/verif/seeded/benign", exist_ok=True)
    for d in glob.glob(root + "/*.diff"):
        shutil.copy(d, "/verif/seeded/benign/" + os.path.basename(d))
    lines = ["# Behaviour-preserving changes vs all 20 quick checks (tools_benign.py)", "",
             "| change | suite | checks with exit 0 | alarms (VIOLATION) | drift reported by | machinery errors |", "|---|---|---|---|---|---|"]
    for name, r in sorted(res.items()):
        chk = {k: v for k, v in r.items() if isinstance(v, dict)}
        ok = sum(1 for v in chk.values() if v["rc"] == 0)
        al = [k for k, v in chk.items() if v["violations"]]
        dr = [k for k, v in chk.items() if v["drift"]]
        me = [k for k, v in chk.items() if v["machinery"] or v["rc"] == 2]
        lines.append("| %s | %s | %d / %d | %s | %s | %s |" % (name, r.get("suite", "")[:24], ok, len(chk), ", ".join(al) or "none", ", ".join(dr) or "-", ", ".join(me) or "-"))
    open("/verif/seeded/benign/" + out, "w").write("\n".join(lines) + "\n")
    print(out, len(res))
