"""spec -> code: replay every reachable contract state into the real FileHashStore and
issue every call of the alphabet from it; code -> spec: hand the observed steps to TLC
(TraceProps) which judges clauses and conformance.

TLC (MCContract, *_paths.cfg) supplies, for each distinct abstract store state, the BFS
call sequence that reaches it, and the call alphabet.  For each such state the walker
  1. replays the path on a fresh store with ONE FileHashStore instance,
  2. snapshots the directory,
  3. runs every call (`fan`) on that same instance, restoring the directory after each,
and records (call, result, abs(post)) for every step.  The instance is deliberately
reused across the fan: results must not depend on instance history (C02, C05).
"""
import json
import multiprocessing
import os
import shutil
import sys
import time

from . import absfn, tlc
from .driver import Driver, load_hashstore
from .ids import Inst, write_inputs

READONLY_OPS = {"retrieve", "hex", "getmeta", "bad"}


def contract_paths(consts):
    """Distinct contract states (as BFS paths from the empty store) and the call alphabet."""
    cfg = ("SPECIFICATION Spec\n" + tlc.consts_block(consts)
           + "VIEW ViewPaths\nCHECK_DEADLOCK FALSE\nINVARIANT DumpPath\n"
           + "CONSTRAINT DumpCallsAtInit\n")
    r = tlc.run_tlc("MCContract", cfg_text=cfg, workers=1)
    if not r.ok:
        raise RuntimeError("TLC failed on MCContract paths:\n%s" % r.out[-3000:])
    paths = [json.loads(x) for x in r.printed("PATH")]
    calls = json.loads(r.printed("CALLS")[0])
    calls.sort(key=lambda c: json.dumps(c, sort_keys=True))
    return paths, calls, r


def contract_random_histories(consts, num, seed):
    """TLC -simulate on the contract: `num` random call histories of MCContract!SimDepth calls."""
    cfg = ("SPECIFICATION Spec\n" + tlc.consts_block(consts)
           + "CHECK_DEADLOCK FALSE\nINVARIANT DumpLongPath\n")
    r = tlc.run_tlc("MCContract", cfg_text=cfg, workers=1,
                    simulate="num=%d" % num, extra=["-depth", "151", "-seed", str(seed or 1)])
    paths = [json.loads(x) for x in r.printed("PATH")]
    if not paths:
        raise RuntimeError("TLC -simulate produced no histories:\n" + r.out[-2000:])
    return paths, r


def walk_chains(inst_kw, paths, procs=16, per_path_inst=None):
    """Run each history on its own store with ONE instance; returns the forest root.
    per_path_inst: optional list of Inst kwargs, one per history (adversarial identifiers)."""
    base = os.path.join(tlc.scratch_root(), "chains")
    shutil.rmtree(base, ignore_errors=True)
    os.makedirs(base)
    inst = Inst(**inst_kw)
    fhs, _ = load_hashstore()
    root_dir = os.path.join(base, "root")
    os.makedirs(root_dir)
    inputs = write_inputs(inst, os.path.join(base, "inputs.root"))
    d0 = Driver(inst, root_dir, inputs, fhs)
    rootrec = {"call": {"op": "init", "pid": "-", "c": "-", "val": "-", "fmt": "-", "ver": "-"},
               "res": {"cls": "ok", "cid": "-", "data": "-", "truth": True},
               "post": d0.abstract(), "kids": []}
    # (each job carries only its own history: shipping the whole list to every job is quadratic)
    jobs = [((per_path_inst[k] if per_path_inst else inst_kw), {k: paths[k]}, [], [k], base, None)
            for k in range(len(paths))]
    with multiprocessing.get_context("fork").Pool(min(procs, len(jobs))) as pool:
        results = pool.map(_worker, jobs, chunksize=1)
    for res in results:
        for sidx, first, rootfan in res:
            if first is not None:
                first["state"] = sidx
                rootrec["kids"].append(first)
    shutil.rmtree(base, ignore_errors=True)
    return rootrec


def _restore(snap, root):
    shutil.rmtree(root)
    shutil.copytree(snap, root)


_ALLOWED = None


def _conforming(rel):
    """Is a path (relative to the store root) at a location derived from hashes only?"""
    import re
    global _ALLOWED
    if _ALLOWED is None:
        hx = r"[0-9a-f]+"
        _ALLOWED = re.compile(
            r"^(hashstore\.yaml|(objects|metadata|refs/pids|refs/cids)(/%s)*(/%s(_delete)+)?"
            r"|(objects|metadata|refs)/tmp(/tmp[A-Za-z0-9_]+)?|refs|objects|metadata)$" % (hx, hx))
    return bool(_ALLOWED.match(rel))


def _contained_call(d, call):
    """Run the call with the interposer watching the WHOLE file system: count mutating
    operations outside the store root or at non-hash-derived locations inside it."""
    from . import interpose
    import threading
    ctx = interpose.Context("/")
    ctx.root = ""
    ctx.under = lambda p, _u=interpose.Context.under: _norm(p)
    owner = threading.get_ident()
    ctx.intercepts = lambda: threading.get_ident() == owner
    ctx.keep_log = False
    ctx.after_paths = True
    bad = []
    mut = {"rename", "replace", "remove", "unlink", "mkdir", "rmdir", "create", "open:w",
           "open:a", "open:rw", "truncate", "link", "symlink", "chmod"}
    root = os.path.realpath(d.root)

    def after(op, token, n, out, paths=()):
        if op not in mut:
            return
        for p in paths:
            if p == root or p.startswith(root + os.sep):
                rel = p[len(root) + 1:]
                if rel and not _conforming(rel):
                    bad.append((op, rel[:80]))
            else:
                bad.append((op, p[:80]))
    ctx.after = after
    with interpose.active(ctx):
        r = d.call(call)
    r["escape"] = len(bad)
    if bad:
        r["escapes"] = bad[:3]
    return r


def _norm(p):
    try:
        p = os.fspath(p)
    except TypeError:
        return None
    if isinstance(p, bytes):
        p = os.fsdecode(p)
    if not os.path.isabs(p):
        p = os.path.join(os.getcwd(), p)
    return os.path.normpath(p)


class Hung(Exception):
    pass


def _guarded(d, call):
    """Run one call under a watchdog: a call that waits for an identifier a previous call left
    locked would otherwise hang the whole walk."""
    import threading
    box = {}

    def run():
        box["r"] = _contained_call(d, call) if getattr(d, "contain", False) else d.call(call)
    th = threading.Thread(target=run, daemon=True)
    th.start()
    th.join(60)
    if th.is_alive():
        d.dead = True
        return {"cls": "blocked", "cid": "-", "data": "-", "truth": True}
    return box["r"]


def _step(d, call, want_fs):
    before = absfn.snapshot(d.root) if want_fs else None
    r = _guarded(d, call)
    if want_fs:
        r["fs"] = absfn.fs_diff(before, absfn.snapshot(d.root))
    if d.notes:
        r["notes"] = d.notes[:4]
    post = d.abstract()
    return {"call": call, "res": r, "post": post, "kids": []}


def walk_state(inst, inputs, base, path, calls, fhs, sidx, fan_filter=None):
    """Returns the chain of records for `path` with the fan attached to its last node."""
    root = os.path.join(base, "s%d" % sidx)
    snap = root + ".snap"
    shutil.rmtree(root, ignore_errors=True)
    shutil.rmtree(snap, ignore_errors=True)
    os.makedirs(root)
    d = Driver(inst, root, inputs, fhs)
    d.contain = getattr(inst, "contain", False)
    first = None
    node = None
    cur = d.abstract()
    for call in path:
        if getattr(d, "dead", False):
            break
        n = _step(d, call, call["op"] in READONLY_OPS)
        cur = n["post"]
        if node is None:
            first = n
        else:
            node["kids"].append(n)
        node = n
    shutil.copytree(root, snap)
    fan = []
    for k, call in enumerate(calls):
        if fan_filter is not None and not fan_filter(k, call):
            continue
        if call["op"] == "dii" and cur["obj"].get(call["c"]) != "ok":
            continue
        if getattr(d, "dead", False):
            break
        n = _step(d, call, call["op"] in READONLY_OPS)
        n["fan"] = k
        fan.append(n)
        if n["post"] != cur or n["res"].get("fs", "same") != "same" \
                or call["op"] not in READONLY_OPS:
            _restore(snap, root)
    shutil.rmtree(root, ignore_errors=True)
    shutil.rmtree(snap, ignore_errors=True)
    if node is None:
        return None, fan        # the initial state: fan hangs off the root
    node["kids"].extend(fan)
    return first, []


def _worker(args):
    (inst_kw, paths, calls, idxs, base, fan_mod) = args
    fhs, _ = load_hashstore()
    contain = bool(inst_kw.get("_contain"))
    inst_kw = {k: v for k, v in inst_kw.items() if k != "_contain"}
    inst = Inst(**inst_kw)
    inst.contain = contain
    inputs = write_inputs(inst, os.path.join(base, "inputs.%d" % os.getpid()))
    out = []
    for sidx in idxs:
        ff = None
        if fan_mod:
            m, seed = fan_mod
            ff = (lambda k, call, sidx=sidx:
                  call["op"] != "bad" or (k + sidx + seed) % m == 0)
        first, rootfan = walk_state(inst, inputs, base, paths[sidx], calls, fhs, sidx, ff)
        out.append((sidx, first, rootfan))
    return out


def walk(inst_kw, paths, calls, procs=16, fan_mod=None, state_filter=None):
    """Walk all states; returns the forest root (record dict with kids)."""
    base = os.path.join(tlc.scratch_root(), "walk")
    shutil.rmtree(base, ignore_errors=True)
    os.makedirs(base)
    inst = Inst(**inst_kw)
    fhs, _ = load_hashstore()
    root_dir = os.path.join(base, "root")
    os.makedirs(root_dir)
    inputs = write_inputs(inst, os.path.join(base, "inputs.root"))
    d0 = Driver(inst, root_dir, inputs, fhs)
    rootrec = {"call": {"op": "init", "pid": "-", "c": "-", "val": "-", "fmt": "-", "ver": "-"},
               "res": {"cls": "ok", "cid": "-", "data": "-", "truth": True},
               "post": d0.abstract(), "kids": []}
    idxs = [k for k in range(len(paths)) if state_filter is None or state_filter(k)]
    chunks = [idxs[k::procs * 4] for k in range(procs * 4)]
    chunks = [c for c in chunks if c]
    jobs = [(inst_kw, paths, calls, c, base, fan_mod) for c in chunks]
    t0 = time.time()
    if procs > 1:
        with multiprocessing.get_context("fork").Pool(procs) as pool:
            results = pool.map(_worker, jobs)
    else:
        results = [_worker(j) for j in jobs]
    per_state = {}
    for res in results:
        for sidx, first, rootfan in res:
            per_state[sidx] = (first, rootfan)
    for sidx in sorted(per_state):
        first, rootfan = per_state[sidx]
        if first is not None:
            first["state"] = sidx
            rootrec["kids"].append(first)
        for n in rootfan:
            n["state"] = sidx
            rootrec["kids"].append(n)
    shutil.rmtree(base, ignore_errors=True)
    return rootrec, time.time() - t0


def flatten(rootrec):
    """BFS numbering (1-based) so that the children of a record are contiguous."""
    order = [rootrec]
    parent = [0]
    k = 0
    while k < len(order):
        n = order[k]
        n["_c0"] = len(order) + 1
        for ch in n["kids"]:
            order.append(ch)
            parent.append(k + 1)
        n["_c1"] = len(order)
        k += 1
    recs = []
    for k, n in enumerate(order):
        r = {"call": n["call"], "res": n["res"], "c0": n["_c0"], "c1": n["_c1"]}
        same = k > 0 and n["post"] == order[parent[k] - 1]["post"]
        r["same"] = same
        if not same:
            r["post"] = n["post"]
        recs.append(r)
    return recs, order, parent


def judge(recs, consts, workers=16, template="TraceProps.cfg.tmpl", module="TraceProps"):
    """Run TLC on the observed forest; returns (viol: {clause: [n]}, drift: [n], result)."""
    work = os.path.join(tlc.scratch_root(), "judge.%d" % os.getpid())
    os.makedirs(work, exist_ok=True)
    tf = os.path.join(work, "trace.json")
    with open(tf, "w") as f:
        json.dump(recs, f)
    cfg = tlc.fill_template(template, consts)
    r = tlc.run_tlc(module, cfg_text=cfg, workers=workers, env={"TRACE_FILE": tf})
    shutil.rmtree(work, ignore_errors=True)
    viol, drift = {}, []
    for l in r.printed("VIOL"):
        name, n = l.split()
        viol.setdefault(name, []).append(int(n))
    for l in r.printed("DRIFT"):
        drift.append(int(l.split()[1]))
    judged = r.printed("JUDGED")
    if not r.ok or not judged or judged[0].split()[0] != str(len(recs)):
        raise RuntimeError("TraceProps did not judge every record (%s of %d)\n%s"
                           % (judged, len(recs), r.out[-3000:]))
    return viol, sorted(drift), r


def lineage(order, parent, n):
    """Calls from the root to record n (1-based), with observed results."""
    chain = []
    k = n
    while k > 1:
        chain.append(order[k - 1])
        k = parent[k - 1]
    chain.reverse()
    return chain


# --------------------------------------------------------------------------------------
# C19: both storing procedures from every reachable state
# --------------------------------------------------------------------------------------
def _pairs_worker(args):
    (inst_kw, paths, idxs, base) = args
    fhs, _ = load_hashstore()
    inst = Inst(**inst_kw)
    inputs = write_inputs(inst, os.path.join(base, "inputs.%d" % os.getpid()))

    def C(op, pid="-", c="-", val="-"):
        return {"op": op, "pid": pid, "c": c, "val": val, "fmt": "-", "ver": "-"}
    out = []
    for sidx in idxs:
        root = os.path.join(base, "q%d" % sidx)
        snap = root + ".snap"
        shutil.rmtree(root, ignore_errors=True)
        shutil.rmtree(snap, ignore_errors=True)
        os.makedirs(root)
        d = Driver(inst, root, inputs, fhs)
        for call in paths[sidx]:
            d.call(call)
        pre = d.abstract()
        shutil.copytree(root, snap)
        for p in sorted(inst.pid):
            for c in sorted(inst.content):
                for val in ("none", "good", "badsum", "badsize"):
                    r1 = d.call(C("store", p, c, val))
                    one = {"res": r1, "st": d.abstract()}
                    _restore(snap, root)
                    s1 = d.call(C("storenp", c=c))
                    r = s1
                    if r["cls"] == "ok" and val != "none":
                        r = d.call(C("dii", c=c, val=val))
                    if r["cls"] == "ok":
                        r = d.call(C("tag", p, c))
                    two = {"res": r, "st": d.abstract(), "stored": s1}
                    _restore(snap, root)
                    out.append({"pre": pre, "pid": p, "c": c, "val": val, "one": one, "two": two,
                                "state": sidx})
        shutil.rmtree(root, ignore_errors=True)
        shutil.rmtree(snap, ignore_errors=True)
    return out


def walk_pairs(inst_kw, paths, procs=16):
    base = os.path.join(tlc.scratch_root(), "pairs")
    shutil.rmtree(base, ignore_errors=True)
    os.makedirs(base)
    idxs = list(range(len(paths)))
    chunks = [c for c in (idxs[k::procs * 2] for k in range(procs * 2)) if c]
    with multiprocessing.get_context("fork").Pool(procs) as pool:
        res = pool.map(_pairs_worker, [(inst_kw, paths, c, base) for c in chunks])
    shutil.rmtree(base, ignore_errors=True)
    return [r for chunk in res for r in chunk]


def judge_flat(module, template, obj, consts, n):
    work = os.path.join(tlc.scratch_root(), "flat.%d" % os.getpid())
    os.makedirs(work, exist_ok=True)
    tf = os.path.join(work, "obs.json")
    with open(tf, "w") as f:
        json.dump(obj, f)
    cfg = tlc.fill_template(template, consts)
    r = tlc.run_tlc(module, cfg_text=cfg, workers=16, env={"TRACE_FILE": tf})
    shutil.rmtree(work, ignore_errors=True)
    judged = r.printed("JUDGED")
    if not r.ok or not judged or judged[0].split()[0] != str(n):
        raise RuntimeError("%s did not judge everything (%s of %d)\n%s"
                           % (module, judged, n, r.out[-3000:]))
    viol = [(l.split()[0], int(l.split()[1])) for l in r.printed("VIOL")]
    drift = [int(l.split()[1]) for l in r.printed("DRIFT")]
    return viol, drift, r
