------------------------------ MODULE TraceFault ------------------------------
(***************************************************************************)
(* code -> spec for executions of the real FileHashStore that were         *)
(* INTERRUPTED: by process death before the k-th file-system operation of  *)
(* a call (Obs.crashes) or by an injected I/O error at the k-th fault site *)
(* (Obs.faults), one-off or persistent for that destination.               *)
(* TLC judges every record against C09 / C10 / C13 (+ C08 lock hygiene),   *)
(* using the contract Apply where a clause speaks about "its whole effect".*)
(***************************************************************************)
EXTENDS HashStoreAPI, Json, IOUtils, TLCExt

Obs == JsonDeserialize(IOEnv.TRACE_FILE)
NC  == Len(Obs.crashes)
NF  == Len(Obs.faults)

VARIABLE k
Init == k = 0
Next == k = 0 /\ k' \in 1..(NC + NF)
Spec == Init /\ [][Next]_k

IsCrash == k \in 1..NC
IsFault == k \in (NC + 1)..(NC + NF)
X == Obs.crashes[k]
F == Obs.faults[k - NC]

Log(name) == PrintT("VIOL " \o name \o " " \o ToString(k))
Judge(name, ok) == ok \/ Log(name)

(***************************************************************************)
(* what belongs to everybody except pid p                                  *)
(***************************************************************************)
OthersView(s, p) ==
  [pref |-> [q \in Pid \ {p} |-> s.pref[q]],
   \* each other pid's own entries in every cid list (a torn tail line left by a crash in
   \* the middle of the in-place rewrite of a list is residue, it is nobody's reference)
   cref |-> [c \in Cid |-> [q \in Pid \ {p} |-> CountIn(q, s.cref[c].pids)]],
   doc  |-> [q \in Pid \ {p} |-> s.doc[q]],
   obj  |-> [c \in Cid |-> IF \E q \in Pid \ {p} : s.pref[q] = c THEN s.obj[c] ELSE "-"]]

\* the pid a call is about ("-" for calls without one)
ThePid(call) == call.pid

Complete(s) ==
  /\ \A c \in Cid : s.obj[c] \in {"absent", "ok"}
  /\ \A p \in Pid : s.pref[p] # Junk
  /\ \A p \in Pid, f \in Fmt : s.doc[p][f] # Junk

(***************************************************************************)
(* C09 / C10 : process death before operation k                            *)
(*   X = [pre, call, site, crashed, retrieve, delete, restore, reread,     *)
(*        others : <<[pid, before, after]>>]                               *)
(***************************************************************************)
I_C09_CrashComplete == IsCrash => Judge("C09_CompleteAtCrashPoint", Complete(X.crashed))

\* a document is a complete version that some store_metadata call supplied:
\* the old one or the new one
I_C09_DocVersion == IsCrash =>
  Judge("C09_DocIsSuppliedVersion",
        X.call.op = "putmeta" =>
          X.crashed.doc[X.call.pid][EffFmt(X.call.fmt)]
             \in {X.pre.doc[X.call.pid][EffFmt(X.call.fmt)], X.call.ver})

I_C10_OthersIntact == IsCrash =>
  Judge("C10_OthersIntact",
        /\ (X.call.pid # "-" => OthersView(X.crashed, X.call.pid) = OthersView(X.pre, X.call.pid))
        /\ (X.call.pid = "-" => [X.crashed EXCEPT !.obj = X.pre.obj, !.junk = 0]
                                 = [X.pre EXCEPT !.junk = 0]
                                /\ \A c \in Cid : (\E q \in Pid : X.pre.pref[q] = c)
                                                     => X.crashed.obj[c] = X.pre.obj[c])
        /\ \A j \in 1..Len(X.others) : X.others[j].after = X.others[j].before)

\* the interrupted pid: right bytes, or not found / inconsistent - never wrong bytes
RightContents(x) ==
  {x.pre.pref[x.call.pid]} \cup (IF x.call.op \in {"store", "tag"} THEN {x.call.c} ELSE {})
I_C10_NoWrongBytes == IsCrash =>
  Judge("C10_NoWrongBytes",
        X.call.pid # "-" =>
          \/ X.retrieve.cls \in {"nopid", "inconsistent"}
          \/ X.retrieve.cls = "ok" /\ X.retrieve.truth /\ X.retrieve.data \in RightContents(X))

\* delete_object(pid) (may say unknown) then store_object(pid, data) always succeeds
I_C10_Unwedge == IsCrash =>
  Judge("C10_Unwedge",
        X.call.pid # "-" =>
          /\ X.delete.cls \in {"ok", "nopid"}
          /\ X.restore.cls = "ok" /\ X.restore.truth
          /\ X.reread.cls = "ok" /\ X.reread.data = X.restore.cid /\ X.reread.truth)

(***************************************************************************)
(* C13 / C08 : one injected I/O failure                                    *)
(*   F = [pre, call, site, mode, res, post, locksLeft, retry, blocked,     *)
(*        others]                                                          *)
(***************************************************************************)
NoJunk(s) == [s EXCEPT !.junk = 0]

\* success is reported only if the whole effect was achieved
I_C13_RaisesUnlessDone == IsFault =>
  Judge("C13_RaisesUnlessDone",
        F.res.cls = "ok" =>
          LET a == Apply(F.pre, F.call) IN a.res.cls = "ok" /\ NoJunk(F.post) = NoJunk(a.st))

Unbound(s, p) == s.pref[p] = None /\ \A c \in Cid : ~InSeq(p, s.cref[c].pids)
BindingOf(s, p) == [pref |-> s.pref[p],
                    inlists |-> {c \in Cid : InSeq(p, s.cref[c].pids)}]

\* after a failed store/tag of an unbound pid the pid is unbound and can be stored again at
\* once (an immediate retry behaves as the contract says for the state the failure left);
\* if the pid was bound before, its earlier binding is intact
I_C13_NoHalfBound == IsFault =>
  Judge("C13_NoHalfBound",
        (F.call.op \in {"store", "tag"} /\ F.res.cls # "ok") =>
          IF F.pre.pref[F.call.pid] # None
            THEN BindingOf(F.post, F.call.pid) = BindingOf(F.pre, F.call.pid)
            ELSE /\ Unbound(F.post, F.call.pid)
                 /\ WellFormed(F.post)
                 /\ F.retry.cls = Apply(NoJunk(F.post), F.call).res.cls)

\* a call that failed did fail: it raised an error class, not a silent wrong answer
I_C13_ErrorSurfaces == IsFault =>
  Judge("C13_ErrorSurfaces",
        LET a == Apply(F.pre, F.call) IN
        \/ F.res.cls # "ok"
        \/ a.res.cls = "ok")

I_C13_PrevDocIntact == IsFault =>
  Judge("C13_PrevDocIntact",
        (F.call.op = "putmeta" /\ F.res.cls # "ok") =>
          F.post.doc[F.call.pid][EffFmt(F.call.fmt)] = F.pre.doc[F.call.pid][EffFmt(F.call.fmt)])

I_C13_OthersUntouched == IsFault =>
  Judge("C13_OthersUntouched",
        /\ F.call.pid # "-" => OthersView(F.post, F.call.pid) = OthersView(F.pre, F.call.pid)
        /\ \A j \in 1..Len(F.others) : F.others[j].after = F.others[j].before)

I_C08_FaultUnlocks == IsFault =>
  Judge("C08_NothingLockedAfterFault", F.locksLeft = 0 /\ ~F.blocked)

I_C09_FaultComplete == IsFault => Judge("C09_CompleteAfterFault", Complete(F.post))

(***************************************************************************)
(* The sequential properties when a call FAILS (injected I/O error).       *)
(* C01 / C03 / C04 / C11 speak about "rejected or failed" calls and about  *)
(* "whatever calls are made on other pids in between"; a call that fails   *)
(* half-way is such a call.                                                *)
(***************************************************************************)
BoundObj(s, p, c) == s.pref[p] = c /\ InSeq(p, s.cref[c].pids) /\ s.obj[c] = "ok"

\* C04: a failed or rejected call never removes a referenced object (only delete_object(p)
\* itself may unbind p)
I_C04_Fault == IsFault =>
  Judge("C04_FaultReferencedKept",
        \A p \in Pid, c \in Cid :
          (BoundObj(F.pre, p, c) /\ ~(F.call.op = "delete" /\ F.call.pid = p))
             => BoundObj(F.post, p, c))

\* C01: ... and every OTHER pid's bytes stay retrievable (retrieve_object was really called
\* for them before and after: F.others)
I_C01_Fault == IsFault =>
  Judge("C01_FaultOthersRetrievable",
        /\ \A p \in Pid \ {F.call.pid}, c \in Cid : BoundObj(F.pre, p, c) => BoundObj(F.post, p, c)
        /\ \A j \in 1..Len(F.others) : F.others[j].after = F.others[j].before)

\* C03: a store / tag for an already bound pid, rejected or failed, leaves the binding as it was
I_C03_Fault == IsFault =>
  Judge("C03_FaultBindingKept",
        (F.call.op \in {"store", "tag"} /\ F.pre.pref[F.call.pid] \in Cid) =>
          /\ F.res.cls # "ok"
          /\ BindingOf(F.post, F.call.pid) = BindingOf(F.pre, F.call.pid)
          /\ F.post.obj[F.pre.pref[F.call.pid]] = F.pre.obj[F.pre.pref[F.call.pid]])

\* C11: documents of other (pid, format) pairs are never affected; a failed store_metadata
\* does not lose the document: it is the previous or the supplied version
DocTouches(call, p, f) ==
  /\ call.pid = p
  /\ \/ call.op = "delete"
     \/ call.op = "delmeta" /\ (call.fmt = NoFmt \/ call.fmt = f)
     \/ call.op = "putmeta" /\ EffFmt(call.fmt) = f
I_C11_Fault == IsFault =>
  /\ Judge("C11_FaultDocIsolation",
           \A p \in Pid, f \in Fmt : ~DocTouches(F.call, p, f) => F.post.doc[p][f] = F.pre.doc[p][f])
  /\ Judge("C11_FaultDocNotLost",
           (F.call.op = "putmeta" /\ F.pre.doc[F.call.pid][EffFmt(F.call.fmt)] \in Ver) =>
             F.post.doc[F.call.pid][EffFmt(F.call.fmt)]
                \in {F.pre.doc[F.call.pid][EffFmt(F.call.fmt)], F.call.ver})

AllJudged == PrintT("JUDGED " \o ToString(TLCGet("stats").distinct - 1) \o " OF " \o ToString(NC + NF))
=============================================================================
