SPECIFICATION Spec
CHECK_DEADLOCK FALSE
POSTCONDITION AllJudged
INVARIANT I_Obj
INVARIANT I_PidRef
INVARIANT I_CidRef
INVARIANT I_Doc
INVARIANT I_Yaml
INVARIANT I_Extra
INVARIANT I_Summary
