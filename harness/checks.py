"""One function per property: check_Cxx(tier, seed) -> exit code."""
import json

from . import seqcheck
from .report import Verdict


def _conc_pass(v, tier, families, props):
    """The property's own clauses on CONCURRENT executions: the interleavings explored for the
    given families (shared, cached exploration of the same tree), judged by TraceLin's I_Cxx_Conc
    clauses.  Coverage of the pass is recorded under coverage.concurrent_pass."""
    from . import conccheck
    for family in families:
        inst_kw = conccheck.META_INST if family == "C12" else conccheck.OBJ_INST
        results = conccheck.run_family(family, tier)
        viol, r, n_out, n_states = conccheck.judge(results, inst_kw)
        keep, v.coverage = v.coverage, {}
        conccheck.report(v, results, viol, props, r, n_out, n_states)
        sub, v.coverage = v.coverage, keep
        keep.setdefault("concurrent_pass", {})[family] = {
            k: sub.get(k) for k in ("scenarios", "evaluations", "states",
                                    "traces_validated_against_impl", "exhaustive",
                                    "non_exhaustive_scenarios",
                                    "exploration_reused_from_cache_for_same_tree",
                                    "nondeterministic_replays")}
    v.coverage["checker_cmd"] = v.coverage.get("checker_cmd", "") + \
        " ; harness.conc explorer (%s) ; tlc TraceLin (I_%s_Conc)" % ("+".join(families), v.prop)


def _fault_pass(v, tier, props):
    """The property's own clauses on executions with one injected I/O failure (TraceFault's
    I_Cxx_Fault clauses)."""
    from . import crashfault
    results = crashfault.run(tier, ("fault",))
    viol, r, nc, nf = crashfault.judge(results)
    keep, v.coverage = v.coverage, {}
    crashfault.report(v, results, viol, props, nc, nf)
    sub, v.coverage = v.coverage, keep
    keep["fault_pass"] = {k: sub.get(k) for k in ("scenarios", "fault_injections", "distinct_nontrivial")}
    v.coverage["checker_cmd"] = v.coverage.get("checker_cmd", "") + \
        " ; harness.crashfault enumerator ; tlc TraceFault (I_%s_Fault)" % v.prop


def _identifier_passes(v, prop, tier, seed, cfg):
    """The same walk with pid strings that tempt an implementation to alias them: pids that
    differ only in letter case, and pids that are the paths of existing files (two of them with
    identical content)."""
    from . import adversarial, tlc
    base = "DOI:10.18739/A2901zh2m"
    alt = {"p1": base, "p2": base.lower(), "p3": base.upper()}
    pids = seqcheck.CONFIGS[cfg]["inst"]["pids"]
    seqcheck.run(prop, tier, seed, cfg, finish=False, verdict=v,
                 inst_over={"pid_strings": {p: alt[p] for p in pids}})
    fp = adversarial.file_pids(seed, tlc.scratch_root())
    seqcheck.run(prop, tier, seed, cfg, finish=False, verdict=v,
                 inst_over={"pid_strings": {p: fp[p] for p in pids}})


def check_C03(tier, seed):
    cfg = "obj2" if tier == "quick" else "obj3"
    v = seqcheck.run("C03", tier, seed, cfg, finish=False)
    _identifier_passes(v, "C03", tier, seed, cfg)
    _conc_pass(v, tier, ["C07"], {"C03"})
    _fault_pass(v, tier, {"C03"})
    return v.finish()


def check_C04(tier, seed):
    cfg = "obj2" if tier == "quick" else "obj3"
    v = seqcheck.run("C04", tier, seed, cfg, finish=False)
    # further passes: pids that differ only in letter case / that name existing files
    _identifier_passes(v, "C04", tier, seed, cfg)
    _conc_pass(v, tier, ["C07"], {"C04"})
    _fault_pass(v, tier, {"C04"})
    return v.finish()


def check_C05(tier, seed):
    v = seqcheck.run("C05", tier, seed, "obj2" if tier == "quick" else "obj3",
                     random_histories=16 if tier == "quick" else 200, finish=False)
    _conc_pass(v, tier, ["C07"], {"C05"})
    return v.finish()


def _colliding_pids(n, algo="sha256"):
    """Pid strings whose hashes start with the same hex digit (same parent directory when the
    store is sharded with depth 1, width 1)."""
    import hashlib
    found, k = [], 0
    while len(found) < n:
        s_ = "doi:10.5063/F1%04d" % k
        k += 1
        if hashlib.new(algo, s_.encode()).hexdigest()[0] == "a":
            found.append(s_)
    return found


def check_C11(tier, seed):
    cfg = "meta2" if tier == "quick" else "meta3"
    v = seqcheck.run("C11", tier, seed, cfg, finish=False)
    # second pass: depth 1 / width 1 and pids whose metadata directories are siblings under ONE
    # parent, so that anything that walks or deletes "the directory above" hits the other pid
    pids = seqcheck.CONFIGS[cfg]["inst"]["pids"]
    coll = _colliding_pids(len(pids))
    seqcheck.run("C11", tier, seed, "meta2", finish=False, verdict=v,
                 inst_over={"depth": 1, "width": 1, "pid_strings": dict(zip(pids, coll))})
    _conc_pass(v, tier, ["C12"], {"C11"})
    _fault_pass(v, tier, {"C11"})
    return v.finish()


def check_C17(tier, seed):
    return seqcheck.run("C17", tier, seed, "bad1" if tier == "quick" else "bad2",
                        walk_ops={"bad", "retrieve", "hex", "getmeta", "delete"})


def replay(prop, path):
    from . import replayer
    return replayer.replay(prop, path)


def _conc(prop, family, tier, seed, props, mode="th", level="model_checking"):
    from . import conccheck
    v = Verdict(prop, tier, seed, level)
    results = conccheck.run_family(family, tier, mode)
    inst_kw = conccheck.OBJ_INST if family == "C07" else conccheck.META_INST
    viol, r, n_out, n_states = conccheck.judge(results, inst_kw)
    conccheck.report(v, results, viol, props, r, n_out, n_states)
    _stepcheck(v, tier, seed, mode, family, explored=results)
    v.coverage["checker_cmd"] = ("harness.conc explorer (real code, all interleavings) ; tlc TraceLin ; "
                                 "tlc impl/MCImpl (implementation-shaped model) ; tlc impl/TraceSteps")
    v.assumptions += [
        "scheduling points: every operation on a shared path class and every lock/condition operation; "
        "operations on a thread's own tmp file and runs of directory stat/mkdir do not yield",
        "2 threads exhaustive per scenario (state-cached DFS); 3 threads preemption bound 2 (thorough)",
        "CPython GIL: an un-yielded stretch of a managed thread is atomic w.r.t. other managed threads"]
    return v


def _outcome_key(results, final):
    st = {k: final[k] for k in ("obj", "pref", "cref", "doc", "junk")}
    return json.dumps({"res": results, "st": st}, sort_keys=True)


def _stepcheck(v, tier, seed, mode="th", family="C07", explored=None):
    """Implementation-shaped model: TLC model-checks spec/impl/FileHashStore.tla for the
    scenarios (exhaustively, 3-thread ones included) and validates recorded executions of the
    real code against it step by step.  Rejected traces are drift, not alarms."""
    from . import conccheck, stepcheck
    scs = conccheck.scenarios(family, tier, mode)
    if family == "C07":
        scs = scs + conccheck.reader_scenarios(mode)
    if tier == "quick" and family == "C07":
        keep = {"|".join(conccheck.cstr(c) for c in calls) for _, calls in conccheck.OBJ_QUICK}
        scs = [s_ for s_ in scs if s_.name.split("/", 2)[2] in keep and len(s_.threads) == 2] + \
              [s_ for s_ in scs if len(s_.threads) == 3 and "tag:p1:a|tag:p1:b|tag:p2:b" in s_.name] + \
              [s_ for s_ in scs if s_.name.startswith("R/")]
    res = stepcheck.run(scs, nruns=4 if tier == "quick" else 12, seed=seed,
                        do_crash=(tier == "thorough"))
    runs = sum(r_["runs"] for r_ in res)
    acc = sum(r_["accepted"] for r_ in res)
    v.drift += runs - acc
    bad_mc = [(r_["scenario"], r_["mc"]["violated"]) for r_ in res
              if r_["mc"] and not r_["mc"]["ok"] and not r_["mc"].get("timeout")]
    v.coverage["impl_model"] = {
        "scenarios_model_checked": sum(1 for r_ in res if r_["mc"]),
        "model_states": sum(r_["mc"]["distinct"] for r_ in res if r_["mc"]),
        "model_transitions": sum(r_["mc"]["generated"] for r_ in res if r_["mc"]),
        "model_violations": bad_mc,
        "model_checks_not_finished_in_time": [r_["scenario"] for r_ in res
                                              if r_["mc"] and r_["mc"].get("timeout")][:20],
        "recorded_executions_validated": runs, "accepted_by_model": acc,
        "events_matched": sum(r_.get("events", 0) for r_ in res),
        "rejected_samples": [dict(scenario=r_["scenario"], **r_["stuck"][0]) for r_ in res if r_["stuck"]][:5],
        "two_thread_crash_scenarios_model_checked": sum(1 for r_ in res if r_.get("crash_mc")),
        "two_thread_crash_model_states": sum(r_["crash_mc"]["distinct"] for r_ in res if r_.get("crash_mc")),
        "two_thread_crash_model_violations": [(r_["scenario"], r_["crash_mc"]["violated"]) for r_ in res
                                              if r_.get("crash_mc") and not r_["crash_mc"]["ok"]][:5],
        "planted_corruptions": sum(r_.get("planted", 0) for r_ in res),
        "planted_corruptions_rejected": sum(r_.get("planted_rejected", 0) for r_ in res),
        "tlc_errors": [r_["scenario"] for r_ in res if r_.get("error")][:5]}
    # two-sided comparison at OUTCOME level: terminal outcomes TLC reaches on the model vs the
    # distinct terminal outcomes the harness reached on the real code (same scenario)
    if explored:
        real = {}
        for r_ in explored:
            tids = sorted(r_["scenario"]["threads"])
            real[r_["scenario"]["name"]] = (
                {_outcome_key({t: o["rec"]["results"][t]["cls"] for t in tids}, o["rec"]["final"])
                 for o in r_["outcomes"] if o["rec"]["outcome"] == "done"}, r_["exhaustive"])
        cmp_n = only_model = only_code = 0
        samples = []
        for r_ in res:
            if r_["scenario"] in real and r_.get("model_outcomes") is not None and r_["mc"] and r_["mc"]["ok"]:
                mo = set(r_["model_outcomes"])
                ro, exh = real[r_["scenario"]]
                cmp_n += 1
                a = ro - mo
                b = (mo - ro) if exh else set()
                only_code += len(a)
                only_model += len(b)
                if (a or b) and len(samples) < 4:
                    samples.append({"scenario": r_["scenario"], "only_in_code": sorted(a)[:1],
                                    "only_in_model": sorted(b)[:1]})
        v.coverage["impl_model"]["outcome_sets_compared"] = cmp_n
        v.coverage["impl_model"]["outcomes_only_in_code"] = only_code
        v.coverage["impl_model"]["outcomes_only_in_model"] = only_model
        v.coverage["impl_model"]["outcome_difference_samples"] = samples
        v.drift += only_code + only_model
    acc_planted = [(r_["scenario"], r_["planted_accepted"]) for r_ in res if r_.get("planted_accepted")]
    if acc_planted:
        v.notes.append({"planted_corruptions_ACCEPTED_by_the_model": acc_planted[:5]})
    v.coverage["traces_validated_against_impl"] = v.coverage.get("traces_validated_against_impl", 0) + acc
    v.coverage["states"] = v.coverage.get("states", 0) + v.coverage["impl_model"]["model_states"]
    if bad_mc:
        v.notes.append({"implementation_shaped_model_counterexamples": bad_mc[:5],
                        "meaning": "a behaviour of the MODEL violates an invariant; it is a candidate only "
                                   "- the real-code exploration above decides"})


def check_C07(tier, seed):
    return _conc("C07", "C07", tier, seed, {"C07"}).finish()


def check_C12(tier, seed):
    return _conc("C12", "C12", tier, seed, {"C12"}).finish()


def _lock_protocol(tier):
    """LockProtocol.tla: TLC (safety, no stranding, everyone finishes) and Apalache (IndInv is
    inductive: base from Init, step from any state satisfying IndInv)."""
    import subprocess, shutil, os
    from . import tlc
    out = {}
    for n in ((4, 5) if tier == "quick" else (4, 5, 6)):
        r = tlc.run_tlc("MCLock", cfg_file="LockProtocol_%d.cfg" % n, workers=4)
        out["tlc_%d_threads" % n] = {"ok": r.ok, "distinct": r.distinct, "generated": r.generated}
    work = os.path.join(tlc.scratch_root(), "apa.%d" % os.getpid())
    res = {}
    for name, args in (("base", ["--init=Init", "--length=0"]), ("step", ["--init=IndInit", "--length=1"])):
        try:
            p = subprocess.run(["apalache-mc", "check", "--inv=IndInv", "--out-dir=" + work] + args +
                               ["MC_LockApa.tla"], cwd=tlc.SPEC, capture_output=True, text=True, timeout=600)
            res[name] = "NoError" if "The outcome is: NoError" in p.stdout else "FAILED: " + p.stdout[-300:]
        except Exception as e:  # noqa  (Apalache is an extra, never a reason to fail the check)
            res[name] = "not run: %s" % type(e).__name__
    shutil.rmtree(work, ignore_errors=True)
    out["apalache_inductive_invariant"] = res
    return out


def check_C08(tier, seed):
    """Termination and lock hygiene over every execution explored for C07 and C12
    (the fault-injection part rides on the C13 enumeration, see check_C13)."""
    from . import conccheck
    v = Verdict("C08", tier, seed, "model_checking")
    for family, inst_kw in (("C07", conccheck.OBJ_INST), ("C12", conccheck.META_INST)):
        results = conccheck.run_family(family, tier)
        viol, r, n_out, n_states = conccheck.judge(results, inst_kw)
        conccheck.report(v, results, viol, {"C08"}, r, n_out, n_states)
    from . import crashfault
    fres = crashfault.run(tier, ("fault",))
    fviol, fr, nc, nf = crashfault.judge(fres)
    conc_cov = dict(v.coverage)
    crashfault.report(v, fres, fviol, {"C08"}, nc, nf)
    v.coverage.update({k: conc_cov[k] for k in ("scenarios", "evaluations", "states", "transitions",
                                                "traces_validated_against_impl", "exhaustive",
                                                "distinct_nontrivial", "per_scenario", "samples")
                       if k in conc_cov})
    v.coverage["fault_injections_checked_for_lock_residue"] = nf
    v.coverage["lock_protocol_model"] = _lock_protocol(tier)
    v.coverage["checker_cmd"] = ("harness.conc explorer ; tlc TraceLin (I_NoDeadlock, I_NothingLocked) ; harness.crashfault ; "
                                 "tlc TraceFault (I_C08_FaultUnlocks) ; tlc MCLock (LockProtocol) ; apalache-mc MC_LockApa (IndInv)")
    v.assumptions.append("deadlock = no runnable managed thread while some call unfinished; "
                         "after every distinct terminal outcome follow-up calls on every identifier "
                         "involved must complete without blocking")
    return v.finish()


def _crashfault(prop, tier, seed, what, props, level="fault_enumeration"):
    from . import crashfault
    v = Verdict(prop, tier, seed, level)
    results = crashfault.run(tier, what)
    viol, r, nc, nf = crashfault.judge(results)
    crashfault.report(v, results, viol, props, nc, nf)
    v.coverage["checker_cmd"] = "harness.crashfault enumerator (real code) ; tlc TraceFault"
    v.assumptions += ["crash = process death (fork + os._exit before the k-th operation); page-cache / power loss not modelled",
                      "faults are OSErrors raised at Python's system-call boundary; stat/listdir/read are not fault sites",
                      "one crash or one fault per execution"]
    return v


def check_C10(tier, seed):
    return _crashfault("C10", tier, seed, ("crash",), {"C10"}).finish()


def check_C13(tier, seed):
    from . import crashfault, txncheck
    v = _crashfault("C13", tier, seed, ("fault",), {"C13"})
    # the tagging transaction as a TLA+ model (spec/TagTxn.tla): model-checked for every
    # start / site / mode, and its outcome per failing site compared with the real code's
    cmpres = txncheck.compare(crashfault.run(tier, ("fault",), only="tag:"))
    if not cmpres["tlc_ok"]:
        v.machinery("TagTxn model check failed")
    v.drift += cmpres["n_differ"] + cmpres["n_no_model_site"]
    v.coverage["tag_transaction_model"] = cmpres
    dres = txncheck.compare_delete(crashfault.run(tier, ("fault",), only="delete:"))
    if not dres["tlc_ok"]:
        v.machinery("DeleteTxn model check failed")
    v.drift += dres["n_differ"] + dres["n_no_model_site"]
    v.coverage["delete_transaction_model"] = dres
    v.coverage["checker_cmd"] += " ; tlc TagTxn, DeleteTxn (transaction models under one fault, outcomes per fault site compared)"
    return v.finish()


def check_C09(tier, seed):
    """Permanent files never observable half-written: (a) every abstract state between two
    file-system operations of every interleaving explored for C07/C12 (a concurrent reader
    sees exactly these states), (b) the left-over directory after process death before each
    operation, (c) the state after each injected fault."""
    from . import conccheck, crashfault
    v = Verdict("C09", tier, seed, "model_checking")
    for family, inst_kw in (("C07", conccheck.OBJ_INST), ("C12", conccheck.META_INST)):
        results = conccheck.run_family(family, tier)
        viol, r, n_out, n_states = conccheck.judge(results, inst_kw)
        conccheck.report(v, results, viol, {"C09"}, r, n_out, n_states)
    conc_cov = dict(v.coverage)
    cres = crashfault.run(tier, ("crash", "fault"))
    cviol, cr, nc, nf = crashfault.judge(cres)
    crashfault.report(v, cres, cviol, {"C09"}, nc, nf)
    for k in ("states", "transitions", "traces_validated_against_impl",
              "distinct_intermediate_abs_states", "exhaustive"):
        if k in conc_cov:
            v.coverage[k] = conc_cov[k]
    v.coverage["scenarios"] = conc_cov.get("scenarios", 0) + len(cres)
    v.coverage["checker_cmd"] = "tlc TraceLin (I_C09_Complete on every intermediate state) ; tlc TraceFault (I_C09_*)"
    v.assumptions.append("file proxies flush after every write, so a file written in place is "
                         "observable half-written between two of its write operations")
    return v.finish()


def _table_report(v, records, viol, props, desc_keys):
    import collections
    for name, k in viol:
        prop = name.split("_")[0]
        rec = records[k - 1] if k >= 1 else {}
        desc = {"clause": name}
        for key in desc_keys:
            if key in rec:
                val = rec[key]
                desc[key] = "".join(val) if isinstance(val, list) and all(isinstance(x, str) for x in val) else val
        if prop in props or prop == "COVER":
            v.violation(desc, {"kind": "table", "clause": name, "record": rec,
                               "how": "one API call (or the short call sequence named in the record) on a fresh store"})
        else:
            v.notes.append({"other_property_clause_false": name, "record": desc})
    kinds = collections.Counter(r["kind"] for r in records)
    v.coverage["evaluations"] = v.coverage.get("evaluations", 0) + len(records)
    v.coverage["records_by_kind"] = dict(kinds)


def check_C02(tier, seed):
    from . import tables
    v = Verdict("C02", tier, seed, "model_checking")
    records, table, unsupported, r0 = tables.sweep_c02(tier, seed)
    viol, r = tables.judge(records, expect_cover=True)
    _table_report(v, records, viol, {"C02"}, ["kind", "add", "sum", "algo", "cls", "nth", "round"])
    nsp = sum(len(s) for s in table.values())
    v.coverage.update({
        "states": r.distinct, "transitions": r.generated,
        "traces_validated_against_impl": len(records),
        "spellings_enumerated_by_tlc": nsp, "unsupported_names": len(unsupported),
        "distinct_nontrivial": len({(rec["kind"], "".join(rec.get("add", []) or rec.get("algo", [])),
                                     "".join(rec.get("sum", []))) for rec in records}),
        "exhaustive": True,
        "samples": [records[3], records[-1]],
        "checker_cmd": "tlc MCAlgorithms (table sanity, enumeration) ; tlc TraceTables (I_C02_Keys, I_C02_Hex, I_Cover)",
        "rule": "ONE store instance for the whole history; every spelling of every algorithm as "
                "additional and as checksum algorithm, each followed by a plain call; random pairs; "
                "get_hex_digest for every spelling in three rounds with the pid re-bound to other content"})
    v.assumptions.append("digest values are compared with hashlib; the canonical algorithm of a spelling comes from Algorithms.tla, not from the code")
    return v.finish()


def check_C06(tier, seed):
    from . import tables
    v = seqcheck.run("C06", tier, seed, "obj2", finish=False)
    records, table = tables.sweep_c06(tier, seed)
    viol, r = tables.judge(records)
    _table_report(v, records, viol, {"C06"},
                  ["kind", "state", "call", "algo", "sumcase", "sizecase", "add", "cls", "objBefore", "objAfter"])
    v.coverage["verdict_product_records"] = len(records)
    v.coverage["samples"].append(records[0])
    v.coverage["checker_cmd"] += " ; tlc TraceTables (I_C06_Valid, I_C06_Invalid)"
    _conc_pass(v, tier, ["C07"], {"C06"})
    return v.finish()


def check_C01(tier, seed):
    from . import tables
    v = seqcheck.run("C01", tier, seed, "obj2", finish=False,
                     random_histories=8 if tier == "quick" else 100)
    records = tables.sweep_c01(tier, seed)
    viol, r = tables.judge(records)
    _table_report(v, records, viol, {"C01"}, ["kind", "size", "data", "algo", "cls", "cidTrue",
                                             "sizeTrue", "retrievedSame", "stream", "err"])
    from . import tlc as _tlc
    mcs = _tlc.run_tlc("MCStream", cfg_file="MCStream.cfg", workers=4)
    if not mcs.ok:
        v.machinery("MCStream failed: %s" % mcs.errors[:2])
    nlogs, acc, rej = tables.judge_streams(records)
    v.drift += nlogs - acc
    for r_ in records:
        r_.pop("streamlog", None)
    v.coverage["stream_model"] = {"states": mcs.distinct, "stream_op_logs_validated": nlogs,
                                  "accepted_by_model": acc, "rejected_samples": rej[:3]}
    v.coverage["size_kind_algorithm_records"] = len(records)
    v.coverage["samples"].append(records[0])
    v.coverage["checker_cmd"] += " ; tlc TraceTables (I_C01_Sweep)"
    v.assumptions.append("sizes around 4096 and 8192 (the two read-buffer sizes Stream chooses: st_blksize of a file on this file system, 8192 for in-memory streams)")
    _identifier_passes(v, "C01", tier, seed, "obj2")
    _conc_pass(v, tier, ["C07", "R"], {"C01"})
    _fault_pass(v, tier, {"C01"})
    return v.finish()


def check_C19(tier, seed):
    from . import walker, tlc
    from .ids import Inst
    v = Verdict("C19", tier, seed, "model_checking")
    cfg = seqcheck.CONFIGS["obj2" if tier == "quick" else "obj3"]
    inst = Inst(**cfg["inst"])
    consts = dict(inst.constants())
    consts["Ops"] = ["store", "storenp", "tag", "delete", "dii"]
    mc = seqcheck.model_check(consts, v)          # includes I_C19_Converge on every state
    paths, calls, pr = walker.contract_paths(consts)
    recs = walker.walk_pairs(cfg["inst"], paths)
    viol, drift, r = walker.judge_flat("TraceConverge", "TraceConverge.cfg.tmpl",
                                       {"records": recs}, consts, len(recs))
    v.drift += len(drift)
    for name, k in viol:
        rec = recs[k - 1]
        desc = {"clause": name, "pid": rec["pid"], "c": rec["c"], "val": rec["val"],
                "one": rec["one"]["res"]["cls"], "two": rec["two"]["res"]["cls"],
                "states_equal": rec["one"]["st"] == rec["two"]["st"]}
        v.violation(desc, {"kind": "converge", "clause": name, "inst": cfg["inst"],
                           "history": paths[rec["state"]], "record": rec,
                           "how": "replay `history` on two fresh stores, then run procedure one on "
                                  "the first and procedure two on the second"})
    v.coverage.update({"states": mc.distinct, "transitions": mc.generated,
                       "contract_store_states": len(paths),
                       "traces_validated_against_impl": len(recs),
                       "pairs_of_procedures_compared": len(recs), "exhaustive": True,
                       "samples": [{k: recs[len(recs) // 2][k] for k in ("pid", "c", "val", "one", "two")}],
                       "checker_cmd": "tlc MCContract (I_C19_Converge) ; tlc TraceConverge"})
    v.assumptions.append("validation data: none / correct / wrong checksum / wrong size under SHA-256; "
                         "non-default algorithms and letter case are swept by the C06 table check")
    # the step-wise way is three calls: other clients' calls can fall between them
    _conc_pass(v, tier, ["C07"], {"C19"})
    return v.finish()


def _judge_simple(module, cfg_file, records, workers=16):
    """Flat records judged by a constant-free trace spec (cfg file in spec/)."""
    import os, shutil
    from . import tlc
    work = os.path.join(tlc.scratch_root(), "simple.%d" % os.getpid())
    os.makedirs(work, exist_ok=True)
    tf = os.path.join(work, "obs.json")
    with open(tf, "w") as f:
        json.dump(tlc.nonull({"records": records}), f)
    r = tlc.run_tlc(module, cfg_file=cfg_file, workers=workers, env={"TRACE_FILE": tf})
    shutil.rmtree(work, ignore_errors=True)
    judged = r.printed("JUDGED")
    if not r.ok or not judged or judged[0].split()[0] != str(len(records)):
        raise RuntimeError("%s did not judge everything (%s of %d)\n%s"
                           % (module, judged, len(records), r.out[-3000:]))
    return [(l.split()[0], int(l.split()[1])) for l in r.printed("VIOL")], r


def check_C14(tier, seed):
    from . import configcheck, tlc
    v = Verdict("C14", tier, seed, "model_checking")
    mc = tlc.run_tlc("MCConfig", cfg_file="MCConfig.cfg", workers=16)
    if not mc.ok:
        v.machinery("MCConfig failed: %s" % mc.errors[:2])
    records = configcheck.run(tier, seed)
    viol, r = _judge_simple("TraceConfig", "TraceConfig.cfg", records)
    for name, k in viol:
        rec = records[k - 1]
        s = rec["supplied"]
        desc = {"clause": name, "dirstate": rec["dirstate"], "defect": s["defect"],
                "accepted": rec["accepted"], "fs": rec["fs"],
                "differs": sorted(key for key in ("depth", "width", "algo", "ns")
                                  if (s[key]["v"] if isinstance(s[key], dict) else s[key]) != rec["made"][key])
                if rec["dirstate"] == "created" else None,
                "algo": s["algo"]}
        v.violation(desc, {"kind": "config", "clause": name, "record": rec,
                           "how": "create a store with `made` (dirstate created), then open it with `supplied`"})
    import collections
    v.coverage.update({
        "states": mc.distinct, "transitions": mc.generated,
        "traces_validated_against_impl": len(records),
        "attempts_by_dirstate": dict(collections.Counter(r_["dirstate"] for r_ in records)),
        "accepted": sum(1 for r_ in records if r_["accepted"]),
        "refused": sum(1 for r_ in records if not r_["accepted"]),
        "populated_store_attempts": sum(1 for r_ in records if r_["populated"]),
        "exhaustive": False,
        "samples": [records[0], records[len(records) // 2]],
        "checker_cmd": "tlc MCConfig (all creation x reopening pairs of the decision table) ; tlc TraceConfig"})
    v.assumptions.append("depth 1-5, width 1-4, five DataONE algorithm names + 7 other spellings/unsupported names, 2 namespaces, int/str encodings, 12 malformations")
    return v.finish()


def check_C15(tier, seed):
    from . import layoutcheck
    import collections
    v = Verdict("C15", tier, seed, "model_checking")
    records, ncfg = layoutcheck.run(tier, seed)
    viol, r = _judge_simple("TraceLayout", "TraceLayout.cfg", records)
    for name, k in viol:
        rec = records[k - 1]
        desc = {"clause": name, "kind": rec["kind"], "depth": rec["depth"], "width": rec["width"],
                "algo": rec["algo"]}
        if rec["kind"] == "extra":
            desc["rel"] = rec["rel"][:80]
        v.violation(desc, {"kind": "layout", "clause": name, "record": rec,
                           "how": "fixed script (3 pids on one content, delete one, a 4th pid, a data-only "
                                  "store, two metadata formats) on a store with this depth/width/algorithm; "
                                  "several configurations run in ONE process with the same identifiers"})
    v.coverage.update({"states": r.distinct, "transitions": r.generated,
                       "traces_validated_against_impl": len(records),
                       "configurations": ncfg,
                       "records_by_kind": dict(collections.Counter(x["kind"] for x in records)),
                       "exhaustive": True,
                       "samples": [{k_: (("".join(v_) if isinstance(v_, list) and v_ and isinstance(v_[0], str) else v_))
                                    for k_, v_ in records[1].items() if k_ not in ("tokens", "pids")}],
                       "checker_cmd": "tlc TraceLayout (Layout.tla operators evaluated on every file found)"})
    v.assumptions.append("digests of identifiers/content come from hashlib (trusted); cross-implementation readability (Java HashStore) is not reachable here")
    return v.finish()


def check_C20(tier, seed):
    from . import clientcheck
    v = Verdict("C20", tier, seed, "model_checking")
    records, ncases, r0 = clientcheck.run(tier, seed)
    viol, r = _judge_simple("TraceClient", "TraceClient.cfg", records)
    for name, k in viol:
        rec = records[k - 1]
        if rec["kind"] == "verb":
            c = rec["case"]
            desc = {"clause": name, "verb": c["verb"], "pid": c["pid"], "fmt": c["fmt"],
                    "algo": c["algo"], "sum": c["sum"], "sumalg": c["sumalg"], "size": c["size"],
                    "content": c["content"],
                    "cli": "raised:" + str(rec["cli"]["err"]) if rec["cli"]["raised"] else "ok",
                    "api": "raised:" + str(rec["api"]["err"]) if rec["api"]["raised"] else "ok"}
        elif rec["kind"] == "chs":
            desc = {"clause": name, "verb": "createstore", "existing_store": rec["made"],
                    "differs": rec["differs"], "cli_raised": rec["cli"]["raised"],
                    "api_raised": rec["api"]["raised"]}
        else:
            desc = {"clause": name, "config": rec["config"], "why": rec["why"]}
        v.violation(desc, {"kind": "client", "clause": name, "record": rec,
                           "how": "populated store copied twice; hashstoreclient.main() with the case's "
                                  "options on one copy, the API call of Client!ApiOf on the other"})
    import collections
    v.coverage.update({"states": len(records), "transitions": len(records),
                       "traces_validated_against_impl": len(records),
                       "cases_enumerated_by_tlc": ncases,
                       "by_verb": dict(collections.Counter(x["case"]["verb"] for x in records if x["kind"] == "verb")),
                       "exhaustive": True,
                       "samples": [{k_: records[5][k_] for k_ in ("case", "api_call", "required")}],
                       "checker_cmd": "tlc Client (case enumeration, ApiOf) ; tlc TraceClient"})
    return v.finish()


def check_C18(tier, seed):
    """Adversarial injective instantiations of pids / formats: the code must behave exactly
    like the model (in which identifiers are uninterpreted, so nothing can alias) and every
    file it creates must lie inside the root at a hash-derived location."""
    from . import walker, adversarial, tlc
    from .ids import Inst
    v = Verdict("C18", tier, seed, "model_checking")
    base_kw = dict(pids=["p1", "p2", "p3"], contents=["a", "b"], extras=[], fmts=["fD", "f2", "f3"],
                   vers=["v1", "v2"])
    ops = ["store", "tag", "delete", "retrieve", "hex", "putmeta", "getmeta", "delmeta"]
    small = Inst(pids=["p1", "p2", "p3"], contents=["a", "b"], fmts=["fD", "f2", "f3"], vers=["v1", "v2"])
    consts = dict(small.constants())
    consts["Ops"] = ops
    n_inst = 48 if tier == "quick" else 1500
    per = 3
    paths, rr = walker.contract_random_histories(consts, max(1, n_inst * per // 2), seed + 7)
    paths = (paths * (1 + n_inst * per // max(1, len(paths))))[:n_inst * per]
    insts, described = [], []
    for i in range(n_inst):
        pid_strings, fmt_strings = adversarial.instantiation(seed * 100003 + i, tlc.scratch_root())
        kw = dict(base_kw, pid_strings=pid_strings, fmt_strings=fmt_strings, _contain=True)
        for _ in range(per):
            insts.append(kw)
        described.append({"pid": pid_strings, "fmt": fmt_strings})
    rootrec = walker.walk_chains(base_kw, paths, per_path_inst=insts)
    # TLC judges the observed forest in batches of histories (one JSON file of several hundred
    # thousand records exhausts its heap)
    kids = rootrec["kids"]
    n_recs = 0
    for b0 in range(0, max(1, len(kids)), 400):
        sub = dict(rootrec, kids=kids[b0:b0 + 400])
        recs, order, parent = walker.flatten(sub)
        n_recs += len(recs) - 1
        viol, drift, jr = walker.judge(recs, consts)
        v.drift += len(drift)
        for clause, ns in sorted(viol.items()):
            for n in ns:
                chain = walker.lineage(order, parent, n)
                sidx = chain[0].get("state", 0)
                kw = insts[sidx] if sidx < len(insts) else {}
                rec = order[n - 1]
                desc = {"clause": clause, "op": rec["call"]["op"], "cls": rec["res"]["cls"],
                        "identifiers": {k: (s_[:40] + ("..." if len(s_) > 40 else ""))
                                        for k, s_ in kw.get("pid_strings", {}).items()}}
                v.violation(desc, {"kind": "sequential-instantiated", "clause": clause,
                                   "pid_strings": kw.get("pid_strings"), "fmt_strings": kw.get("fmt_strings"),
                                   "history": [{"call": x["call"], "res": x["res"]} for x in chain],
                                   "how": "replay `history` on a fresh store with the given identifier strings"})
    def short(d_):
        return {k: (s_ if len(s_) <= 60 else s_[:57] + "...") for k, s_ in d_.items()}
    v.coverage.update({"states": n_recs + 1, "transitions": n_recs + 1,
                       "traces_validated_against_impl": len(paths),
                       "instantiations": n_inst, "histories_of_150_calls": len(paths),
                       "observed_steps_judged": n_recs,
                       "exhaustive": False,
                       "samples": [{"pid": short(d_["pid"]), "fmt": short(d_["fmt"])} for d_ in described[:4]],
                       "checker_cmd": "tlc -simulate MCContract (histories) ; harness walk under adversarial "
                                      "identifier strings with whole-file-system interposition ; tlc TraceProps (all clauses + C18_*)"})
    v.assumptions.append("identifiers are drawn by a seeded generator (prefix/suffix/case variants, "
                         "path tricks, shell/glob characters, control characters, combining/RTL/astral code points, "
                         "up to ~8 KiB); cids are hex by construction and not in scope")
    return v.finish()


def check_C16(tier, seed):
    """USE_MULTIPROCESSING=True: (a) the sequential contract walk through the `_mp` branches,
    (b) the C07/C12 interleaving scenarios and the fault enumeration through the `_mp`
    branches (multiprocessing primitives replaced by scheduler-aware stand-ins: threads play
    processes), (c) real forked processes with the real Manager lists and locks contending on
    shared pids and cids (sampling)."""
    import os
    from . import conccheck, crashfault, mpreal
    v = Verdict("C16", tier, seed, "model_checking")
    v.also_known_of_clause_property = True
    allp = {"C01", "C03", "C04", "C05", "C06", "C07", "C08", "C09", "C10", "C11", "C12", "C13",
            "C17", "C18"}
    os.environ["HSVERIF_MODE"] = "mp"
    try:
        seqcheck.run("C16", tier, seed, "obj2", finish=False, verdict=v, props=allp,
                     random_histories=8 if tier == "quick" else 64)
        seq_cov = dict(v.coverage)
        n_drift_seq = v.drift
        fres = crashfault.run(tier, ("fault",))
        fviol, fr, nc, nf = crashfault.judge(fres)
        crashfault.report(v, fres, fviol, allp, nc, nf)
        fault_cov = dict(v.coverage)
    finally:
        os.environ.pop("HSVERIF_MODE", None)
    for family, inst_kw in (("C07", conccheck.OBJ_INST), ("C12", conccheck.META_INST)):
        results = conccheck.run_family(family, tier, mode="mp")
        viol, r, n_out, n_states = conccheck.judge(results, inst_kw)
        conccheck.report(v, results, viol, allp, r, n_out, n_states)
    real = mpreal.run(tier, seed)
    for r_ in real:
        if r_.get("harness_error"):
            v.incomplete("real-process scenario %s did not complete: %s"
                         % (r_["scenario"]["name"], r_["harness_error"]))
    real = [r_ for r_ in real if not r_.get("harness_error")]
    rviol, rr, n_out, n_states = conccheck.judge(real, conccheck.OBJ_INST)
    conccheck.report(v, real, rviol, allp, rr, n_out, n_states)
    v.coverage["sequential_mp"] = {k: seq_cov.get(k) for k in
                                   ("contract_store_states", "observed_steps_judged",
                                    "random_histories_150_calls_one_instance_each")}
    v.coverage["fault_injections_mp"] = fault_cov.get("fault_injections")
    v.coverage["real_process_trials"] = sum(r_["runs"] for r_ in real)
    v.coverage["traces_validated_against_impl"] = v.coverage.get("traces_validated_against_impl", 0) \
        + (seq_cov.get("traces_validated_against_impl") or 0)
    v.coverage["checker_cmd"] = ("HSVERIF_MODE=mp: tlc MCContract + TraceProps ; harness.conc (mode=mp) + tlc TraceLin ; "
                                 "harness.crashfault (mp) + tlc TraceFault ; harness.mpreal (forked processes) + tlc TraceLin")
    v.assumptions += ["(a),(b): threads play processes through the `_mp` branches with stand-in primitives: "
                      "every interleaving of the code paths, not the IPC machinery",
                      "(c): real multiprocessing.Manager lists/locks, forked workers, OS scheduling: sampling"]
    return v.finish()
