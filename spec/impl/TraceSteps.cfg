SPECIFICATION TSpec
CONSTANTS
  Pid = {"p1", "p2", "p3"}
  Content = {"a", "b"}
  ExtraCid = {"x"}
  Fmt = {"fD"}
  Ver = {"v1"}
  Ops = {"store", "storenp", "tag", "delete", "dii"}
  Thread <- ScenThread
  Job <- ScenJob
  Start <- ScenStart
  defaultInitValue = defaultInitValue
CHECK_DEADLOCK FALSE
CONSTRAINT Note
POSTCONDITION Report
