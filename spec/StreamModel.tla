----------------------------- MODULE StreamModel -----------------------------
(***************************************************************************)
(* C01 mechanism - the `Stream` wrapper through which store_object and     *)
(* store_metadata read a caller-supplied file-like object:                 *)
(*    pos := obj.tell()                       (at construction)            *)
(*    seek(0); repeat d := read(B) until d = "" ; seek(pos)   (iteration)  *)
(*    seek(pos)                               (close: the object stays open)*)
(* The model is over lengths only: a content of N bytes, a read buffer of  *)
(* B bytes, the caller's offset K.  TLC checks that the chunks tile [0, N) *)
(* exactly once, in order, for every N, B, K in the configured ranges, and *)
(* that the caller's position is K again afterwards.                        *)
(* TraceStream validates the operations the real code performed on a       *)
(* caller's stream (tell / seek / read with sizes) against this model.     *)
(***************************************************************************)
EXTENDS Naturals, Sequences

VARIABLES N, B, K,      \* fixed per behaviour
          pos,          \* current position of the caller's stream
          saved,        \* what tell() returned
          chunks,       \* <<from, to>> of every non-empty read, in order
          phase         \* "new" "ready" "reading" "restored" "closed"
svars == <<N, B, K, pos, saved, chunks, phase>>

Min(a, b) == IF a < b THEN a ELSE b

SInit(ns, bs) == /\ N \in ns /\ B \in bs /\ K \in 0..N
                 /\ pos = K /\ saved = 0 /\ chunks = <<>> /\ phase = "new"

Tell   == phase = "new" /\ saved' = pos /\ phase' = "ready" /\ UNCHANGED <<N, B, K, pos, chunks>>
Rewind == phase = "ready" /\ pos' = 0 /\ phase' = "reading" /\ UNCHANGED <<N, B, K, saved, chunks>>
Read   == /\ phase = "reading"
          /\ LET n == Min(B, N - pos) IN
             IF n = 0 THEN /\ phase' = "eof" /\ UNCHANGED <<pos, chunks>>
                      ELSE /\ chunks' = Append(chunks, <<pos, pos + n>>) /\ pos' = pos + n
                           /\ UNCHANGED phase
          /\ UNCHANGED <<N, B, K, saved>>
Restore == phase = "eof" /\ pos' = saved /\ phase' = "restored" /\ UNCHANGED <<N, B, K, saved, chunks>>
Close   == phase = "restored" /\ pos' = saved /\ phase' = "closed" /\ UNCHANGED <<N, B, K, saved, chunks>>
SNext == Tell \/ Rewind \/ Read \/ Restore \/ Close

\* the chunks read so far are a gap-free, overlap-free prefix of the content
Tiling == /\ \A i \in 1..Len(chunks) : chunks[i][1] < chunks[i][2]
          /\ (chunks # <<>> => chunks[1][1] = 0)
          /\ \A i \in 1..(Len(chunks) - 1) : chunks[i][2] = chunks[i + 1][1]
WholeContent == phase \in {"eof", "restored", "closed"} =>
                  (IF N = 0 THEN chunks = <<>> ELSE chunks[Len(chunks)][2] = N)
PositionRestored == phase \in {"restored", "closed"} => pos = K
=============================================================================
