------------------------------- MODULE HSProps -------------------------------
(***************************************************************************)
(* The PROPERTIES, one named clause per sentence of /verif/properties.jsonl *)
(* that speaks about sequential, fault-free use of the API (C01 C03 C04    *)
(* C05 C06 C11 C17 C18; C19 is in Converge.tla; the clauses about          *)
(* schedules, crashes and faults live with their judges TraceLin and       *)
(* TraceFault; the input tables in Algorithms / Config / Layout / Client). *)
(* Clauses are predicates over                                             *)
(*      (pre-state, call, result, post-state, ghost before, ghost after)   *)
(* and never mention Apply.  The ghost is what the history of calls and    *)
(* their RESULTS implies, advanced by ideal rules that do not look at the  *)
(* store state at all:                                                     *)
(*   bound[p]   cid p is bound to  (ok store/tag binds, ok delete unbinds)  *)
(*   stored[p]  content a successful store_object(p, ...) supplied          *)
(*   orphanOK   cids that may exist unreferenced (stored without pid, or    *)
(*              store whose tagging was rejected) and not deleted since     *)
(*   lastDoc    last version stored per (pid, format), cleared by deletes   *)
(*                                                                         *)
(* The same clauses are (a) invariants of the contract HashStoreAPI, checked*)
(* by TLC over all histories (MCContract), and (b) evaluated by TLC on      *)
(* states OBSERVED from the real implementation (TraceProps).               *)
(***************************************************************************)
EXTENDS HSTypes

GhostInit ==
  [bound    |-> [p \in Pid |-> None],
   stored   |-> [p \in Pid |-> None],
   orphanOK |-> {},
   lastDoc  |-> [p \in Pid |-> NoDocs]]

Referenced(g, c) == \E q \in Pid : g.bound[q] = c
OthersBound(g, p, c) == \E q \in Pid \ {p} : g.bound[q] = c

GhostNext(g, call, res) ==
  CASE call.op = "store" /\ res.cls = "ok" ->
         [g EXCEPT !.bound[call.pid] = call.c, !.stored[call.pid] = call.c]
    [] call.op = "store" /\ res.cls = "exists" ->
         [g EXCEPT !.orphanOK = @ \cup {call.c}]
    [] call.op = "storenp" /\ res.cls = "ok" ->
         [g EXCEPT !.orphanOK = @ \cup {call.c}]
    [] call.op = "tag" /\ res.cls = "ok" ->
         [g EXCEPT !.bound[call.pid] = call.c]
    [] call.op = "delete" /\ res.cls = "ok" ->
         LET c == g.bound[call.pid] IN
         [g EXCEPT !.bound[call.pid] = None, !.stored[call.pid] = None,
                   !.lastDoc[call.pid] = NoDocs,
                   !.orphanOK = IF c # None /\ ~OthersBound(g, call.pid, c)
                                  THEN @ \ {c} ELSE @]
    [] call.op = "dii" /\ res.cls \in {"badsum", "badsize"} ->
         [g EXCEPT !.orphanOK = IF Referenced(g, call.c) THEN @ ELSE @ \ {call.c}]
    [] call.op = "putmeta" /\ res.cls = "ok" ->
         [g EXCEPT !.lastDoc[call.pid][EffFmt(call.fmt)] = call.ver]
    [] call.op = "delmeta" /\ res.cls = "ok" ->
         IF call.fmt = NoFmt THEN [g EXCEPT !.lastDoc[call.pid] = NoDocs]
                             ELSE [g EXCEPT !.lastDoc[call.pid][call.fmt] = None]
    [] OTHER -> g

RefsOf(s)   == [pref |-> s.pref, cref |-> s.cref]
ValidStore(call) == call.op = "store" /\ call.val \in {"none", "good"}
BadVal(call)     == call.val \in {"badsum", "badsize"}

(***************************************************************************)
(* C01  stored bytes come back unchanged, addressed by their own hash      *)
(***************************************************************************)
\* a well-formed store of an unbound pid (or without pid) is accepted
C01_Accepted(pre, call, res, post, g, h) ==
  /\ (ValidStore(call) /\ g.bound[call.pid] = None) => res.cls = "ok"
  /\ call.op = "storenp" => res.cls = "ok"
\* the result names the content's own hash, true size (truth: byte level)
C01_Result(pre, call, res, post, g, h) ==
  (call.op \in {"store", "storenp"} /\ res.cls = "ok")
     => /\ res.cid = call.c /\ res.truth
        /\ post.obj[call.c] = "ok"
\* from the store until delete_object(pid): retrievable, same bytes
C01_RoundTrip(pre, call, res, post, g, h) ==
  /\ \A p \in Pid : h.stored[p] # None =>
        /\ post.obj[h.stored[p]] = "ok"
        /\ post.pref[p] = h.stored[p]
        /\ InSeq(p, post.cref[h.stored[p]].pids)
  /\ (call.op \in {"retrieve", "hex"} /\ g.stored[call.pid] # None)
        => res.cls = "ok" /\ res.data = g.stored[call.pid] /\ res.truth
\* a caller-supplied stream is left open and at its original offset
C01_CallerStream(pre, call, res, post, g, h) ==
  "stream" \in DOMAIN res => res.stream \in {"-", "ok"}

(***************************************************************************)
(* C03  a pid names at most one object; binding immutable until deleted    *)
(***************************************************************************)
C03_RebindRejected(pre, call, res, post, g, h) ==
  (call.op \in {"store", "tag"} /\ g.bound[call.pid] # None)
    => /\ (call.op = "tag" \/ ValidStore(call)) => res.cls = "exists"
       /\ res.cls # "ok"
       /\ RefsOf(post) = RefsOf(pre)
       /\ pre.obj[g.bound[call.pid]] = "ok" => post.obj[g.bound[call.pid]] = "ok"
C03_OnlyDeleteUnbinds(pre, call, res, post, g, h) ==
  \A q \in Pid : g.bound[q] # None =>
     \/ post.pref[q] = g.bound[q]
     \/ call.op = "delete" /\ call.pid = q /\ res.cls = "ok"

(***************************************************************************)
(* C04  no call removes an object that some pid still references          *)
(***************************************************************************)
C04_ReferencedKept(pre, call, res, post, g, h) ==
  \A c \in Cid : (Referenced(h, c) /\ Referenced(g, c) /\ pre.obj[c] = "ok") => post.obj[c] = "ok"
C04_LastDeleteRemoves(pre, call, res, post, g, h) ==
  (call.op = "delete" /\ res.cls = "ok" /\ g.bound[call.pid] # None
     /\ ~OthersBound(g, call.pid, g.bound[call.pid]))
    => post.obj[g.bound[call.pid]] = "absent"

(***************************************************************************)
(* C05  reference bookkeeping is exact after every completed call          *)
(***************************************************************************)
C05_RefsExact(pre, call, res, post, g, h) ==
  /\ \A p \in Pid : post.pref[p] = h.bound[p]
  /\ \A c \in Cid :
       IF Referenced(h, c)
         THEN /\ post.cref[c].has
              /\ SeqRange(post.cref[c].pids) = {p \in Pid : h.bound[p] = c}
              /\ \A p \in Pid : CountIn(p, post.cref[c].pids) <= 1
         ELSE post.cref[c] = NoList
  /\ \A c \in Cid : (post.obj[c] # "absent" /\ ~Referenced(h, c)) => c \in h.orphanOK
C05_NoResidue(pre, call, res, post, g, h) == post.junk = 0
C05_DeleteAlwaysCleans(pre, call, res, post, g, h) ==
  (call.op = "delete" /\ pre.pref[call.pid] # None)
    => /\ res.cls = "ok"
       /\ post.pref[call.pid] = None
       /\ \A c \in Cid : /\ ~InSeq(call.pid, post.cref[c].pids)
                         /\ post.cref[c].has => post.cref[c].pids # <<>>
       /\ post.junk = 0

(***************************************************************************)
(* C06  validation verdict is exactly "size and checksum match"            *)
(* (the alphabet here has one good and two bad verdicts; algorithms,       *)
(*  spellings and letter case are swept by Validation.tla)                 *)
(***************************************************************************)
C06_ValidNeverRejects(pre, call, res, post, g, h) ==
  /\ (call.op = "store" /\ call.val = "good" /\ g.bound[call.pid] = None) => res.cls = "ok"
  /\ (call.op = "store" /\ call.val = "good") => res.cls \notin {"badsum", "badsize"}
  /\ (call.op = "dii" /\ call.val = "good") =>
        res.cls = "ok" /\ post = pre
C06_InvalidRejects(pre, call, res, post, g, h) ==
  /\ (call.op = "store" /\ BadVal(call)) =>
        /\ res.cls = call.val
        /\ RefsOf(post) = RefsOf(pre)                 \* binds no pid
        /\ post.junk = 0                              \* no temporary file
        /\ post.obj = pre.obj                         \* adds / removes no object
  /\ (call.op = "dii" /\ BadVal(call) /\ pre.obj[call.c] = "ok") =>
        /\ res.cls = call.val
        /\ RefsOf(post) = RefsOf(pre)
        /\ ~Referenced(g, call.c) => post.obj[call.c] = "absent"
        /\ \A c \in Cid \ {call.c} : post.obj[c] = pre.obj[c]

(***************************************************************************)
(* C11  metadata: faithful round trip, isolation, lifetime                 *)
(***************************************************************************)
C11_DocsExact(pre, call, res, post, g, h) ==
  \A p \in Pid, f \in Fmt : post.doc[p][f] = h.lastDoc[p][f]
C11_Retrieve(pre, call, res, post, g, h) ==
  call.op = "getmeta" =>
    IF g.lastDoc[call.pid][EffFmt(call.fmt)] = None
      THEN res.cls = "notfound"
      ELSE res.cls = "ok" /\ res.data = g.lastDoc[call.pid][EffFmt(call.fmt)] /\ res.truth
C11_Isolation(pre, call, res, post, g, h) ==
  /\ call.op = "putmeta" =>
       /\ res.cls = "ok"
       /\ \A p \in Pid, f \in Fmt :
            <<p, f>> # <<call.pid, EffFmt(call.fmt)>> => post.doc[p][f] = pre.doc[p][f]
  /\ call.op = "delmeta" =>
       /\ res.cls = "ok"                                  \* silent no-op included
       /\ \A p \in Pid, f \in Fmt :
            IF p = call.pid /\ (call.fmt = NoFmt \/ f = call.fmt)
              THEN post.doc[p][f] = None
              ELSE post.doc[p][f] = pre.doc[p][f]
  /\ (call.op = "delete" /\ res.cls = "ok") =>
       \A p \in Pid, f \in Fmt :
            IF p = call.pid THEN post.doc[p][f] = None
                            ELSE post.doc[p][f] = pre.doc[p][f]
  /\ call.op \notin {"putmeta", "delmeta", "delete"} => post.doc = pre.doc

(***************************************************************************)
(* C17  rejected and read-only calls change nothing                        *)
(* res.fs: byte-for-byte comparison of the whole store tree by the harness *)
(*   "same" | "dirs" (only new empty directories) | "changed"              *)
(***************************************************************************)
FsSame(res) == "fs" \in DOMAIN res => res.fs # "changed"
C17_Rejected(pre, call, res, post, g, h, expectedCls) ==
  call.op = "bad" => res.cls \in expectedCls /\ post = pre /\ FsSame(res)
C17_ReadOnly(pre, call, res, post, g, h) ==
  /\ call.op \in {"retrieve", "hex", "getmeta"} => post = pre /\ FsSame(res)
  /\ (call.op = "delete" /\ res.cls = "nopid") => post = pre /\ FsSame(res)

(***************************************************************************)
(* C18  identifiers are opaque: a call on one pid / (pid, format) pair     *)
(* never touches what belongs to another; created files stay inside the    *)
(* root at hash-derived locations (res.escape: number of file-system       *)
(* operations the interposer saw outside that discipline)                  *)
(***************************************************************************)
Mine(s, q) == [pref |-> s.pref[q], doc |-> s.doc[q],
               lists |-> [c \in Cid |-> CountIn(q, s.cref[c].pids)]]
C18_Bystander(pre, call, res, post, g, h) ==
  /\ call.pid \in Pid =>
       /\ \A q \in Pid \ {call.pid} : Mine(post, q) = Mine(pre, q)
       /\ \A q \in Pid \ {call.pid} :
            (pre.pref[q] \in Cid /\ pre.obj[pre.pref[q]] = "ok") => post.obj[pre.pref[q]] = "ok"
  /\ call.op \in {"putmeta", "getmeta", "delmeta"} /\ call.fmt # NoFmt =>
       \A f \in Fmt \ {call.fmt} : post.doc[call.pid][f] = pre.doc[call.pid][f]
C18_Contained(pre, call, res, post, g, h) ==
  "escape" \in DOMAIN res => res.escape = 0

=============================================================================
