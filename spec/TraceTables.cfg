SPECIFICATION Spec
CHECK_DEADLOCK FALSE
POSTCONDITION AllJudged
INVARIANT I_C02_Keys
INVARIANT I_C02_Hex
INVARIANT I_C06_Valid
INVARIANT I_C06_Invalid
INVARIANT I_C01_Sweep
INVARIANT I_Cover
