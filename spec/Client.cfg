SPECIFICATION Spec
INVARIANT Dump
