------------------------------- MODULE DeleteTxn -----------------------------
(***************************************************************************)
(* delete_object(p) of a bound pid (regular branch: references and object   *)
(* found) under one injected I/O failure (C13, C08), in the style of        *)
(* TagTxn: fault sites are (family, destination) pairs failing once or      *)
(* persistently; shutil.move = rename, on failure copy + unlink.            *)
(* Nothing is promised for the pid being deleted when its delete fails      *)
(* (C13: "in all cases every other pid's data is untouched"); what TLC      *)
(* checks for every start (p alone / p shares the object with q), site and  *)
(* mode: success only with the whole effect, q's reference and the object   *)
(* it references untouched, nothing locked; and every terminal outcome is   *)
(* compared with what the real code did at that site.                       *)
(***************************************************************************)
EXTENDS Naturals, Sequences, FiniteSets, TLC, Json

CONSTANT MaxK               \* largest index of a failing site that is tried
\* chosen in the initial state: Shared (q references the object too), FMode, FK

None == "none"
P == "p"
Q == "q"
NoList == [has |-> FALSE, pids |-> <<>>]
Without(s, x) == SelectSeq(s, LAMBDA y : y # x)
InSeq(x, s) == \E k \in 1..Len(s) : s[k] = x
Count(x, s) == Cardinality({k \in 1..Len(s) : s[k] = x})

(* --algorithm DeleteTxn {
variables
  Shared \in BOOLEAN,
  FMode \in {"none", "once", "persist"}, FK \in 1..MaxK,
  pref = "c",
  lst = IF Shared THEN [has |-> TRUE, pids |-> <<P, Q>>] ELSE [has |-> TRUE, pids |-> <<P>>],
  obj = "ok",
  marks = {},
  opn = 0, stuck = {}, failed = FALSE,
  first = [fam |-> "-", dest |-> "-", nth |-> 0],
  cnt = [x \in {"W", "R", "flock", "remove"} \X {"pidref", "cidref", "pidrefdel", "cidrefdel", "obj", "objdel"} |-> 0],
  exc = "-", res = "-", newl = <<>>,
  objLocked = FALSE, refLocked = FALSE, cidLocked = FALSE;

define {
  Fails(n, fam, dest) == (FMode # "none" /\ n = FK) \/ <<fam, dest>> \in stuck
}

macro Site(fam, dest) {
  failed := Fails(opn + 1, fam, dest);
  stuck := IF FMode = "persist" /\ opn + 1 = FK THEN stuck \cup {<<fam, dest>>} ELSE stuck;
  first := IF opn + 1 = FK /\ FMode # "none"
             THEN [fam |-> fam, dest |-> dest, nth |-> cnt[<<fam, dest>>] + 1] ELSE first;
  cnt[<<fam, dest>>] := cnt[<<fam, dest>>] + 1;
  opn := opn + 1;
}

\* _rename_path_for_deletion = shutil.move(path, path_delete): kind "pdel" | "cdel" | "odel"
procedure move(kind)
  variables dst = "-", src = "-";
{
 mva: dst := CASE kind = "pdel" -> "pidrefdel" [] kind = "cdel" -> "cidrefdel" [] OTHER -> "objdel";
      src := CASE kind = "pdel" -> "pidref" [] kind = "cdel" -> "cidref" [] OTHER -> "obj";
 mv1: Site("W", dst);                                   \* os.rename
 mv2: if (~failed) {
        if (kind = "pdel") { pref := None; marks := marks \cup {"pidrefdel"}; }
        else if (kind = "cdel") { lst := NoList; marks := marks \cup {"cidrefdel"}; }
        else { obj := "absent"; marks := marks \cup {"objdel"}; };
        return;
      };
 mv3: Site("R", src);                                   \* fall-back: copy2 opens the source
 mv4: if (failed) { exc := "io"; return; };
 mv5: Site("W", dst);                                   \* ... creates the destination
 mv6: if (failed) { exc := "io"; return; };
 mv7: marks := marks \cup {dst};                        \* copy complete
 mv8: Site("remove", src);                              \* ... and unlinks the source
 mv9: if (failed) { exc := "io"; return; };
 mv10: if (kind = "pdel") { pref := None; } else if (kind = "cdel") { lst := NoList; } else { obj := "absent"; };
       return;
}

\* _delete_marked_files: failures swallowed
procedure delmarked()
  variables todo = {};
{
 dk1: todo := marks;
 dk2: while (todo # {}) {
        with (m \in todo) {
          Site("remove", m);
          todo := todo \ {m};
          if (~failed) { marks := marks \ {m}; };
        };
      };
 dk3: return;
}

process (deleter = "t")
{
 d0:  objLocked := TRUE; refLocked := TRUE;
 d1:  Site("R", "pidref");                       \* _find_object: the pid reference
 d2:  if (failed) { goto fail; };
 d3:  Site("R", "cidref");                       \* ... is the pid on the list
 d4:  if (failed) { goto fail; };
 d5:  cidLocked := TRUE;
      call move("pdel");
 d6:  if (exc # "-") { goto rel; };
 d7:  Site("W", "cidref");                       \* _update_refs_file(remove): open r+
 d8:  if (failed) { goto rel; };
 d9:  Site("flock", "cidref");
 d10: if (failed) { goto rel; };
 d11: newl := Without(lst.pids, P);
      Site("W", "cidref");                       \* writelines
 d12: if (failed) { goto rel; };
 d13: Site("W", "cidref");                       \* truncate
 d14: if (failed) {                              \* the new lines are followed by the old tail
        lst := [has |-> TRUE, pids |-> IF newl = <<>> THEN lst.pids ELSE Append(newl, "junk")];
        goto rel;
      } else { lst := [has |-> TRUE, pids |-> newl]; };
 d15: if (lst.pids = <<>>) {
        call move("cdel");
 d16:   if (exc # "-") { goto rel; };
 d17:   call move("odel");
 d18:   if (exc # "-") { goto rel; };
      };
 d19: call delmarked();
 d20: res := "ok"; cidLocked := FALSE; goto fin;       \* (delete_metadata: no documents here)
 rel: cidLocked := FALSE;
 fail: res := "ioerror";
 fin: refLocked := FALSE; objLocked := FALSE;
}
} *)
\* BEGIN TRANSLATION
CONSTANT defaultInitValue
VARIABLES pc, Shared, FMode, FK, pref, lst, obj, marks, opn, stuck, failed, 
          first, cnt, exc, res, newl, objLocked, refLocked, cidLocked, stack

(* define statement *)
Fails(n, fam, dest) == (FMode # "none" /\ n = FK) \/ <<fam, dest>> \in stuck

VARIABLES kind, dst, src, todo

vars == << pc, Shared, FMode, FK, pref, lst, obj, marks, opn, stuck, failed, 
           first, cnt, exc, res, newl, objLocked, refLocked, cidLocked, stack, 
           kind, dst, src, todo >>

ProcSet == {"t"}

Init == (* Global variables *)
        /\ Shared \in BOOLEAN
        /\ FMode \in {"none", "once", "persist"}
        /\ FK \in 1..MaxK
        /\ pref = "c"
        /\ lst = IF Shared THEN [has |-> TRUE, pids |-> <<P, Q>>] ELSE [has |-> TRUE, pids |-> <<P>>]
        /\ obj = "ok"
        /\ marks = {}
        /\ opn = 0
        /\ stuck = {}
        /\ failed = FALSE
        /\ first = [fam |-> "-", dest |-> "-", nth |-> 0]
        /\ cnt = [x \in {"W", "R", "flock", "remove"} \X {"pidref", "cidref", "pidrefdel", "cidrefdel", "obj", "objdel"} |-> 0]
        /\ exc = "-"
        /\ res = "-"
        /\ newl = <<>>
        /\ objLocked = FALSE
        /\ refLocked = FALSE
        /\ cidLocked = FALSE
        (* Procedure move *)
        /\ kind = [ self \in ProcSet |-> defaultInitValue]
        /\ dst = [ self \in ProcSet |-> "-"]
        /\ src = [ self \in ProcSet |-> "-"]
        (* Procedure delmarked *)
        /\ todo = [ self \in ProcSet |-> {}]
        /\ stack = [self \in ProcSet |-> << >>]
        /\ pc = [self \in ProcSet |-> "d0"]

mva(self) == /\ pc[self] = "mva"
             /\ dst' = [dst EXCEPT ![self] = CASE kind[self] = "pdel" -> "pidrefdel" [] kind[self] = "cdel" -> "cidrefdel" [] OTHER -> "objdel"]
             /\ src' = [src EXCEPT ![self] = CASE kind[self] = "pdel" -> "pidref" [] kind[self] = "cdel" -> "cidref" [] OTHER -> "obj"]
             /\ pc' = [pc EXCEPT ![self] = "mv1"]
             /\ UNCHANGED << Shared, FMode, FK, pref, lst, obj, marks, opn, 
                             stuck, failed, first, cnt, exc, res, newl, 
                             objLocked, refLocked, cidLocked, stack, kind, 
                             todo >>

mv1(self) == /\ pc[self] = "mv1"
             /\ failed' = Fails(opn + 1, "W", dst[self])
             /\ stuck' = (IF FMode = "persist" /\ opn + 1 = FK THEN stuck \cup {<<"W", dst[self]>>} ELSE stuck)
             /\ first' = (IF opn + 1 = FK /\ FMode # "none"
                            THEN [fam |-> "W", dest |-> dst[self], nth |-> cnt[<<"W", dst[self]>>] + 1] ELSE first)
             /\ cnt' = [cnt EXCEPT ![<<"W", dst[self]>>] = cnt[<<"W", dst[self]>>] + 1]
             /\ opn' = opn + 1
             /\ pc' = [pc EXCEPT ![self] = "mv2"]
             /\ UNCHANGED << Shared, FMode, FK, pref, lst, obj, marks, exc, 
                             res, newl, objLocked, refLocked, cidLocked, stack, 
                             kind, dst, src, todo >>

mv2(self) == /\ pc[self] = "mv2"
             /\ IF ~failed
                   THEN /\ IF kind[self] = "pdel"
                              THEN /\ pref' = None
                                   /\ marks' = (marks \cup {"pidrefdel"})
                                   /\ UNCHANGED << lst, obj >>
                              ELSE /\ IF kind[self] = "cdel"
                                         THEN /\ lst' = NoList
                                              /\ marks' = (marks \cup {"cidrefdel"})
                                              /\ obj' = obj
                                         ELSE /\ obj' = "absent"
                                              /\ marks' = (marks \cup {"objdel"})
                                              /\ lst' = lst
                                   /\ pref' = pref
                        /\ pc' = [pc EXCEPT ![self] = Head(stack[self]).pc]
                        /\ dst' = [dst EXCEPT ![self] = Head(stack[self]).dst]
                        /\ src' = [src EXCEPT ![self] = Head(stack[self]).src]
                        /\ kind' = [kind EXCEPT ![self] = Head(stack[self]).kind]
                        /\ stack' = [stack EXCEPT ![self] = Tail(stack[self])]
                   ELSE /\ pc' = [pc EXCEPT ![self] = "mv3"]
                        /\ UNCHANGED << pref, lst, obj, marks, stack, kind, 
                                        dst, src >>
             /\ UNCHANGED << Shared, FMode, FK, opn, stuck, failed, first, cnt, 
                             exc, res, newl, objLocked, refLocked, cidLocked, 
                             todo >>

mv3(self) == /\ pc[self] = "mv3"
             /\ failed' = Fails(opn + 1, "R", src[self])
             /\ stuck' = (IF FMode = "persist" /\ opn + 1 = FK THEN stuck \cup {<<"R", src[self]>>} ELSE stuck)
             /\ first' = (IF opn + 1 = FK /\ FMode # "none"
                            THEN [fam |-> "R", dest |-> src[self], nth |-> cnt[<<"R", src[self]>>] + 1] ELSE first)
             /\ cnt' = [cnt EXCEPT ![<<"R", src[self]>>] = cnt[<<"R", src[self]>>] + 1]
             /\ opn' = opn + 1
             /\ pc' = [pc EXCEPT ![self] = "mv4"]
             /\ UNCHANGED << Shared, FMode, FK, pref, lst, obj, marks, exc, 
                             res, newl, objLocked, refLocked, cidLocked, stack, 
                             kind, dst, src, todo >>

mv4(self) == /\ pc[self] = "mv4"
             /\ IF failed
                   THEN /\ exc' = "io"
                        /\ pc' = [pc EXCEPT ![self] = Head(stack[self]).pc]
                        /\ dst' = [dst EXCEPT ![self] = Head(stack[self]).dst]
                        /\ src' = [src EXCEPT ![self] = Head(stack[self]).src]
                        /\ kind' = [kind EXCEPT ![self] = Head(stack[self]).kind]
                        /\ stack' = [stack EXCEPT ![self] = Tail(stack[self])]
                   ELSE /\ pc' = [pc EXCEPT ![self] = "mv5"]
                        /\ UNCHANGED << exc, stack, kind, dst, src >>
             /\ UNCHANGED << Shared, FMode, FK, pref, lst, obj, marks, opn, 
                             stuck, failed, first, cnt, res, newl, objLocked, 
                             refLocked, cidLocked, todo >>

mv5(self) == /\ pc[self] = "mv5"
             /\ failed' = Fails(opn + 1, "W", dst[self])
             /\ stuck' = (IF FMode = "persist" /\ opn + 1 = FK THEN stuck \cup {<<"W", dst[self]>>} ELSE stuck)
             /\ first' = (IF opn + 1 = FK /\ FMode # "none"
                            THEN [fam |-> "W", dest |-> dst[self], nth |-> cnt[<<"W", dst[self]>>] + 1] ELSE first)
             /\ cnt' = [cnt EXCEPT ![<<"W", dst[self]>>] = cnt[<<"W", dst[self]>>] + 1]
             /\ opn' = opn + 1
             /\ pc' = [pc EXCEPT ![self] = "mv6"]
             /\ UNCHANGED << Shared, FMode, FK, pref, lst, obj, marks, exc, 
                             res, newl, objLocked, refLocked, cidLocked, stack, 
                             kind, dst, src, todo >>

mv6(self) == /\ pc[self] = "mv6"
             /\ IF failed
                   THEN /\ exc' = "io"
                        /\ pc' = [pc EXCEPT ![self] = Head(stack[self]).pc]
                        /\ dst' = [dst EXCEPT ![self] = Head(stack[self]).dst]
                        /\ src' = [src EXCEPT ![self] = Head(stack[self]).src]
                        /\ kind' = [kind EXCEPT ![self] = Head(stack[self]).kind]
                        /\ stack' = [stack EXCEPT ![self] = Tail(stack[self])]
                   ELSE /\ pc' = [pc EXCEPT ![self] = "mv7"]
                        /\ UNCHANGED << exc, stack, kind, dst, src >>
             /\ UNCHANGED << Shared, FMode, FK, pref, lst, obj, marks, opn, 
                             stuck, failed, first, cnt, res, newl, objLocked, 
                             refLocked, cidLocked, todo >>

mv7(self) == /\ pc[self] = "mv7"
             /\ marks' = (marks \cup {dst[self]})
             /\ pc' = [pc EXCEPT ![self] = "mv8"]
             /\ UNCHANGED << Shared, FMode, FK, pref, lst, obj, opn, stuck, 
                             failed, first, cnt, exc, res, newl, objLocked, 
                             refLocked, cidLocked, stack, kind, dst, src, todo >>

mv8(self) == /\ pc[self] = "mv8"
             /\ failed' = Fails(opn + 1, "remove", src[self])
             /\ stuck' = (IF FMode = "persist" /\ opn + 1 = FK THEN stuck \cup {<<"remove", src[self]>>} ELSE stuck)
             /\ first' = (IF opn + 1 = FK /\ FMode # "none"
                            THEN [fam |-> "remove", dest |-> src[self], nth |-> cnt[<<"remove", src[self]>>] + 1] ELSE first)
             /\ cnt' = [cnt EXCEPT ![<<"remove", src[self]>>] = cnt[<<"remove", src[self]>>] + 1]
             /\ opn' = opn + 1
             /\ pc' = [pc EXCEPT ![self] = "mv9"]
             /\ UNCHANGED << Shared, FMode, FK, pref, lst, obj, marks, exc, 
                             res, newl, objLocked, refLocked, cidLocked, stack, 
                             kind, dst, src, todo >>

mv9(self) == /\ pc[self] = "mv9"
             /\ IF failed
                   THEN /\ exc' = "io"
                        /\ pc' = [pc EXCEPT ![self] = Head(stack[self]).pc]
                        /\ dst' = [dst EXCEPT ![self] = Head(stack[self]).dst]
                        /\ src' = [src EXCEPT ![self] = Head(stack[self]).src]
                        /\ kind' = [kind EXCEPT ![self] = Head(stack[self]).kind]
                        /\ stack' = [stack EXCEPT ![self] = Tail(stack[self])]
                   ELSE /\ pc' = [pc EXCEPT ![self] = "mv10"]
                        /\ UNCHANGED << exc, stack, kind, dst, src >>
             /\ UNCHANGED << Shared, FMode, FK, pref, lst, obj, marks, opn, 
                             stuck, failed, first, cnt, res, newl, objLocked, 
                             refLocked, cidLocked, todo >>

mv10(self) == /\ pc[self] = "mv10"
              /\ IF kind[self] = "pdel"
                    THEN /\ pref' = None
                         /\ UNCHANGED << lst, obj >>
                    ELSE /\ IF kind[self] = "cdel"
                               THEN /\ lst' = NoList
                                    /\ obj' = obj
                               ELSE /\ obj' = "absent"
                                    /\ lst' = lst
                         /\ pref' = pref
              /\ pc' = [pc EXCEPT ![self] = Head(stack[self]).pc]
              /\ dst' = [dst EXCEPT ![self] = Head(stack[self]).dst]
              /\ src' = [src EXCEPT ![self] = Head(stack[self]).src]
              /\ kind' = [kind EXCEPT ![self] = Head(stack[self]).kind]
              /\ stack' = [stack EXCEPT ![self] = Tail(stack[self])]
              /\ UNCHANGED << Shared, FMode, FK, marks, opn, stuck, failed, 
                              first, cnt, exc, res, newl, objLocked, refLocked, 
                              cidLocked, todo >>

move(self) == mva(self) \/ mv1(self) \/ mv2(self) \/ mv3(self) \/ mv4(self)
                 \/ mv5(self) \/ mv6(self) \/ mv7(self) \/ mv8(self)
                 \/ mv9(self) \/ mv10(self)

dk1(self) == /\ pc[self] = "dk1"
             /\ todo' = [todo EXCEPT ![self] = marks]
             /\ pc' = [pc EXCEPT ![self] = "dk2"]
             /\ UNCHANGED << Shared, FMode, FK, pref, lst, obj, marks, opn, 
                             stuck, failed, first, cnt, exc, res, newl, 
                             objLocked, refLocked, cidLocked, stack, kind, dst, 
                             src >>

dk2(self) == /\ pc[self] = "dk2"
             /\ IF todo[self] # {}
                   THEN /\ \E m \in todo[self]:
                             /\ failed' = Fails(opn + 1, "remove", m)
                             /\ stuck' = (IF FMode = "persist" /\ opn + 1 = FK THEN stuck \cup {<<"remove", m>>} ELSE stuck)
                             /\ first' = (IF opn + 1 = FK /\ FMode # "none"
                                            THEN [fam |-> "remove", dest |-> m, nth |-> cnt[<<"remove", m>>] + 1] ELSE first)
                             /\ cnt' = [cnt EXCEPT ![<<"remove", m>>] = cnt[<<"remove", m>>] + 1]
                             /\ opn' = opn + 1
                             /\ todo' = [todo EXCEPT ![self] = todo[self] \ {m}]
                             /\ IF ~failed'
                                   THEN /\ marks' = marks \ {m}
                                   ELSE /\ TRUE
                                        /\ marks' = marks
                        /\ pc' = [pc EXCEPT ![self] = "dk2"]
                   ELSE /\ pc' = [pc EXCEPT ![self] = "dk3"]
                        /\ UNCHANGED << marks, opn, stuck, failed, first, cnt, 
                                        todo >>
             /\ UNCHANGED << Shared, FMode, FK, pref, lst, obj, exc, res, newl, 
                             objLocked, refLocked, cidLocked, stack, kind, dst, 
                             src >>

dk3(self) == /\ pc[self] = "dk3"
             /\ pc' = [pc EXCEPT ![self] = Head(stack[self]).pc]
             /\ todo' = [todo EXCEPT ![self] = Head(stack[self]).todo]
             /\ stack' = [stack EXCEPT ![self] = Tail(stack[self])]
             /\ UNCHANGED << Shared, FMode, FK, pref, lst, obj, marks, opn, 
                             stuck, failed, first, cnt, exc, res, newl, 
                             objLocked, refLocked, cidLocked, kind, dst, src >>

delmarked(self) == dk1(self) \/ dk2(self) \/ dk3(self)

d0 == /\ pc["t"] = "d0"
      /\ objLocked' = TRUE
      /\ refLocked' = TRUE
      /\ pc' = [pc EXCEPT !["t"] = "d1"]
      /\ UNCHANGED << Shared, FMode, FK, pref, lst, obj, marks, opn, stuck, 
                      failed, first, cnt, exc, res, newl, cidLocked, stack, 
                      kind, dst, src, todo >>

d1 == /\ pc["t"] = "d1"
      /\ failed' = Fails(opn + 1, "R", "pidref")
      /\ stuck' = (IF FMode = "persist" /\ opn + 1 = FK THEN stuck \cup {<<"R", "pidref">>} ELSE stuck)
      /\ first' = (IF opn + 1 = FK /\ FMode # "none"
                     THEN [fam |-> "R", dest |-> "pidref", nth |-> cnt[<<"R", "pidref">>] + 1] ELSE first)
      /\ cnt' = [cnt EXCEPT ![<<"R", "pidref">>] = cnt[<<"R", "pidref">>] + 1]
      /\ opn' = opn + 1
      /\ pc' = [pc EXCEPT !["t"] = "d2"]
      /\ UNCHANGED << Shared, FMode, FK, pref, lst, obj, marks, exc, res, newl, 
                      objLocked, refLocked, cidLocked, stack, kind, dst, src, 
                      todo >>

d2 == /\ pc["t"] = "d2"
      /\ IF failed
            THEN /\ pc' = [pc EXCEPT !["t"] = "fail"]
            ELSE /\ pc' = [pc EXCEPT !["t"] = "d3"]
      /\ UNCHANGED << Shared, FMode, FK, pref, lst, obj, marks, opn, stuck, 
                      failed, first, cnt, exc, res, newl, objLocked, refLocked, 
                      cidLocked, stack, kind, dst, src, todo >>

d3 == /\ pc["t"] = "d3"
      /\ failed' = Fails(opn + 1, "R", "cidref")
      /\ stuck' = (IF FMode = "persist" /\ opn + 1 = FK THEN stuck \cup {<<"R", "cidref">>} ELSE stuck)
      /\ first' = (IF opn + 1 = FK /\ FMode # "none"
                     THEN [fam |-> "R", dest |-> "cidref", nth |-> cnt[<<"R", "cidref">>] + 1] ELSE first)
      /\ cnt' = [cnt EXCEPT ![<<"R", "cidref">>] = cnt[<<"R", "cidref">>] + 1]
      /\ opn' = opn + 1
      /\ pc' = [pc EXCEPT !["t"] = "d4"]
      /\ UNCHANGED << Shared, FMode, FK, pref, lst, obj, marks, exc, res, newl, 
                      objLocked, refLocked, cidLocked, stack, kind, dst, src, 
                      todo >>

d4 == /\ pc["t"] = "d4"
      /\ IF failed
            THEN /\ pc' = [pc EXCEPT !["t"] = "fail"]
            ELSE /\ pc' = [pc EXCEPT !["t"] = "d5"]
      /\ UNCHANGED << Shared, FMode, FK, pref, lst, obj, marks, opn, stuck, 
                      failed, first, cnt, exc, res, newl, objLocked, refLocked, 
                      cidLocked, stack, kind, dst, src, todo >>

d5 == /\ pc["t"] = "d5"
      /\ cidLocked' = TRUE
      /\ /\ kind' = [kind EXCEPT !["t"] = "pdel"]
         /\ stack' = [stack EXCEPT !["t"] = << [ procedure |->  "move",
                                                 pc        |->  "d6",
                                                 dst       |->  dst["t"],
                                                 src       |->  src["t"],
                                                 kind      |->  kind["t"] ] >>
                                             \o stack["t"]]
      /\ dst' = [dst EXCEPT !["t"] = "-"]
      /\ src' = [src EXCEPT !["t"] = "-"]
      /\ pc' = [pc EXCEPT !["t"] = "mva"]
      /\ UNCHANGED << Shared, FMode, FK, pref, lst, obj, marks, opn, stuck, 
                      failed, first, cnt, exc, res, newl, objLocked, refLocked, 
                      todo >>

d6 == /\ pc["t"] = "d6"
      /\ IF exc # "-"
            THEN /\ pc' = [pc EXCEPT !["t"] = "rel"]
            ELSE /\ pc' = [pc EXCEPT !["t"] = "d7"]
      /\ UNCHANGED << Shared, FMode, FK, pref, lst, obj, marks, opn, stuck, 
                      failed, first, cnt, exc, res, newl, objLocked, refLocked, 
                      cidLocked, stack, kind, dst, src, todo >>

d7 == /\ pc["t"] = "d7"
      /\ failed' = Fails(opn + 1, "W", "cidref")
      /\ stuck' = (IF FMode = "persist" /\ opn + 1 = FK THEN stuck \cup {<<"W", "cidref">>} ELSE stuck)
      /\ first' = (IF opn + 1 = FK /\ FMode # "none"
                     THEN [fam |-> "W", dest |-> "cidref", nth |-> cnt[<<"W", "cidref">>] + 1] ELSE first)
      /\ cnt' = [cnt EXCEPT ![<<"W", "cidref">>] = cnt[<<"W", "cidref">>] + 1]
      /\ opn' = opn + 1
      /\ pc' = [pc EXCEPT !["t"] = "d8"]
      /\ UNCHANGED << Shared, FMode, FK, pref, lst, obj, marks, exc, res, newl, 
                      objLocked, refLocked, cidLocked, stack, kind, dst, src, 
                      todo >>

d8 == /\ pc["t"] = "d8"
      /\ IF failed
            THEN /\ pc' = [pc EXCEPT !["t"] = "rel"]
            ELSE /\ pc' = [pc EXCEPT !["t"] = "d9"]
      /\ UNCHANGED << Shared, FMode, FK, pref, lst, obj, marks, opn, stuck, 
                      failed, first, cnt, exc, res, newl, objLocked, refLocked, 
                      cidLocked, stack, kind, dst, src, todo >>

d9 == /\ pc["t"] = "d9"
      /\ failed' = Fails(opn + 1, "flock", "cidref")
      /\ stuck' = (IF FMode = "persist" /\ opn + 1 = FK THEN stuck \cup {<<"flock", "cidref">>} ELSE stuck)
      /\ first' = (IF opn + 1 = FK /\ FMode # "none"
                     THEN [fam |-> "flock", dest |-> "cidref", nth |-> cnt[<<"flock", "cidref">>] + 1] ELSE first)
      /\ cnt' = [cnt EXCEPT ![<<"flock", "cidref">>] = cnt[<<"flock", "cidref">>] + 1]
      /\ opn' = opn + 1
      /\ pc' = [pc EXCEPT !["t"] = "d10"]
      /\ UNCHANGED << Shared, FMode, FK, pref, lst, obj, marks, exc, res, newl, 
                      objLocked, refLocked, cidLocked, stack, kind, dst, src, 
                      todo >>

d10 == /\ pc["t"] = "d10"
       /\ IF failed
             THEN /\ pc' = [pc EXCEPT !["t"] = "rel"]
             ELSE /\ pc' = [pc EXCEPT !["t"] = "d11"]
       /\ UNCHANGED << Shared, FMode, FK, pref, lst, obj, marks, opn, stuck, 
                       failed, first, cnt, exc, res, newl, objLocked, 
                       refLocked, cidLocked, stack, kind, dst, src, todo >>

d11 == /\ pc["t"] = "d11"
       /\ newl' = Without(lst.pids, P)
       /\ failed' = Fails(opn + 1, "W", "cidref")
       /\ stuck' = (IF FMode = "persist" /\ opn + 1 = FK THEN stuck \cup {<<"W", "cidref">>} ELSE stuck)
       /\ first' = (IF opn + 1 = FK /\ FMode # "none"
                      THEN [fam |-> "W", dest |-> "cidref", nth |-> cnt[<<"W", "cidref">>] + 1] ELSE first)
       /\ cnt' = [cnt EXCEPT ![<<"W", "cidref">>] = cnt[<<"W", "cidref">>] + 1]
       /\ opn' = opn + 1
       /\ pc' = [pc EXCEPT !["t"] = "d12"]
       /\ UNCHANGED << Shared, FMode, FK, pref, lst, obj, marks, exc, res, 
                       objLocked, refLocked, cidLocked, stack, kind, dst, src, 
                       todo >>

d12 == /\ pc["t"] = "d12"
       /\ IF failed
             THEN /\ pc' = [pc EXCEPT !["t"] = "rel"]
             ELSE /\ pc' = [pc EXCEPT !["t"] = "d13"]
       /\ UNCHANGED << Shared, FMode, FK, pref, lst, obj, marks, opn, stuck, 
                       failed, first, cnt, exc, res, newl, objLocked, 
                       refLocked, cidLocked, stack, kind, dst, src, todo >>

d13 == /\ pc["t"] = "d13"
       /\ failed' = Fails(opn + 1, "W", "cidref")
       /\ stuck' = (IF FMode = "persist" /\ opn + 1 = FK THEN stuck \cup {<<"W", "cidref">>} ELSE stuck)
       /\ first' = (IF opn + 1 = FK /\ FMode # "none"
                      THEN [fam |-> "W", dest |-> "cidref", nth |-> cnt[<<"W", "cidref">>] + 1] ELSE first)
       /\ cnt' = [cnt EXCEPT ![<<"W", "cidref">>] = cnt[<<"W", "cidref">>] + 1]
       /\ opn' = opn + 1
       /\ pc' = [pc EXCEPT !["t"] = "d14"]
       /\ UNCHANGED << Shared, FMode, FK, pref, lst, obj, marks, exc, res, 
                       newl, objLocked, refLocked, cidLocked, stack, kind, dst, 
                       src, todo >>

d14 == /\ pc["t"] = "d14"
       /\ IF failed
             THEN /\ lst' = [has |-> TRUE, pids |-> IF newl = <<>> THEN lst.pids ELSE Append(newl, "junk")]
                  /\ pc' = [pc EXCEPT !["t"] = "rel"]
             ELSE /\ lst' = [has |-> TRUE, pids |-> newl]
                  /\ pc' = [pc EXCEPT !["t"] = "d15"]
       /\ UNCHANGED << Shared, FMode, FK, pref, obj, marks, opn, stuck, failed, 
                       first, cnt, exc, res, newl, objLocked, refLocked, 
                       cidLocked, stack, kind, dst, src, todo >>

d15 == /\ pc["t"] = "d15"
       /\ IF lst.pids = <<>>
             THEN /\ /\ kind' = [kind EXCEPT !["t"] = "cdel"]
                     /\ stack' = [stack EXCEPT !["t"] = << [ procedure |->  "move",
                                                             pc        |->  "d16",
                                                             dst       |->  dst["t"],
                                                             src       |->  src["t"],
                                                             kind      |->  kind["t"] ] >>
                                                         \o stack["t"]]
                  /\ dst' = [dst EXCEPT !["t"] = "-"]
                  /\ src' = [src EXCEPT !["t"] = "-"]
                  /\ pc' = [pc EXCEPT !["t"] = "mva"]
             ELSE /\ pc' = [pc EXCEPT !["t"] = "d19"]
                  /\ UNCHANGED << stack, kind, dst, src >>
       /\ UNCHANGED << Shared, FMode, FK, pref, lst, obj, marks, opn, stuck, 
                       failed, first, cnt, exc, res, newl, objLocked, 
                       refLocked, cidLocked, todo >>

d16 == /\ pc["t"] = "d16"
       /\ IF exc # "-"
             THEN /\ pc' = [pc EXCEPT !["t"] = "rel"]
             ELSE /\ pc' = [pc EXCEPT !["t"] = "d17"]
       /\ UNCHANGED << Shared, FMode, FK, pref, lst, obj, marks, opn, stuck, 
                       failed, first, cnt, exc, res, newl, objLocked, 
                       refLocked, cidLocked, stack, kind, dst, src, todo >>

d17 == /\ pc["t"] = "d17"
       /\ /\ kind' = [kind EXCEPT !["t"] = "odel"]
          /\ stack' = [stack EXCEPT !["t"] = << [ procedure |->  "move",
                                                  pc        |->  "d18",
                                                  dst       |->  dst["t"],
                                                  src       |->  src["t"],
                                                  kind      |->  kind["t"] ] >>
                                              \o stack["t"]]
       /\ dst' = [dst EXCEPT !["t"] = "-"]
       /\ src' = [src EXCEPT !["t"] = "-"]
       /\ pc' = [pc EXCEPT !["t"] = "mva"]
       /\ UNCHANGED << Shared, FMode, FK, pref, lst, obj, marks, opn, stuck, 
                       failed, first, cnt, exc, res, newl, objLocked, 
                       refLocked, cidLocked, todo >>

d18 == /\ pc["t"] = "d18"
       /\ IF exc # "-"
             THEN /\ pc' = [pc EXCEPT !["t"] = "rel"]
             ELSE /\ pc' = [pc EXCEPT !["t"] = "d19"]
       /\ UNCHANGED << Shared, FMode, FK, pref, lst, obj, marks, opn, stuck, 
                       failed, first, cnt, exc, res, newl, objLocked, 
                       refLocked, cidLocked, stack, kind, dst, src, todo >>

d19 == /\ pc["t"] = "d19"
       /\ stack' = [stack EXCEPT !["t"] = << [ procedure |->  "delmarked",
                                               pc        |->  "d20",
                                               todo      |->  todo["t"] ] >>
                                           \o stack["t"]]
       /\ todo' = [todo EXCEPT !["t"] = {}]
       /\ pc' = [pc EXCEPT !["t"] = "dk1"]
       /\ UNCHANGED << Shared, FMode, FK, pref, lst, obj, marks, opn, stuck, 
                       failed, first, cnt, exc, res, newl, objLocked, 
                       refLocked, cidLocked, kind, dst, src >>

d20 == /\ pc["t"] = "d20"
       /\ res' = "ok"
       /\ cidLocked' = FALSE
       /\ pc' = [pc EXCEPT !["t"] = "fin"]
       /\ UNCHANGED << Shared, FMode, FK, pref, lst, obj, marks, opn, stuck, 
                       failed, first, cnt, exc, newl, objLocked, refLocked, 
                       stack, kind, dst, src, todo >>

rel == /\ pc["t"] = "rel"
       /\ cidLocked' = FALSE
       /\ pc' = [pc EXCEPT !["t"] = "fail"]
       /\ UNCHANGED << Shared, FMode, FK, pref, lst, obj, marks, opn, stuck, 
                       failed, first, cnt, exc, res, newl, objLocked, 
                       refLocked, stack, kind, dst, src, todo >>

fail == /\ pc["t"] = "fail"
        /\ res' = "ioerror"
        /\ pc' = [pc EXCEPT !["t"] = "fin"]
        /\ UNCHANGED << Shared, FMode, FK, pref, lst, obj, marks, opn, stuck, 
                        failed, first, cnt, exc, newl, objLocked, refLocked, 
                        cidLocked, stack, kind, dst, src, todo >>

fin == /\ pc["t"] = "fin"
       /\ refLocked' = FALSE
       /\ objLocked' = FALSE
       /\ pc' = [pc EXCEPT !["t"] = "Done"]
       /\ UNCHANGED << Shared, FMode, FK, pref, lst, obj, marks, opn, stuck, 
                       failed, first, cnt, exc, res, newl, cidLocked, stack, 
                       kind, dst, src, todo >>

deleter == d0 \/ d1 \/ d2 \/ d3 \/ d4 \/ d5 \/ d6 \/ d7 \/ d8 \/ d9 \/ d10
              \/ d11 \/ d12 \/ d13 \/ d14 \/ d15 \/ d16 \/ d17 \/ d18
              \/ d19 \/ d20 \/ rel \/ fail \/ fin

(* Allow infinite stuttering to prevent deadlock on termination. *)
Terminating == /\ \A self \in ProcSet: pc[self] = "Done"
               /\ UNCHANGED vars

Next == deleter
           \/ (\E self \in ProcSet: move(self) \/ delmarked(self))
           \/ Terminating

Spec == Init /\ [][Next]_vars

Termination == <>(\A self \in ProcSet: pc[self] = "Done")

\* END TRANSLATION

Done == pc["t"] = "Done"
Outcome == [shared |-> Shared, mode |-> FMode, fam |-> first.fam, dest |-> first.dest, nth |-> first.nth,
            res |-> res, pref |-> pref, has |-> lst.has, pids |-> lst.pids, obj |-> obj, marks |-> marks]

\* C13: success only with the whole effect (markers whose removal failed are residue)
RaisesUnlessDone == (Done /\ res = "ok") =>
   /\ pref = None /\ ~InSeq(P, lst.pids)
   /\ IF Shared THEN lst = [has |-> TRUE, pids |-> <<Q>>] /\ obj = "ok"
                 ELSE lst = NoList /\ obj = "absent"
\* C13: the other pid's reference and the object it references are untouched, whatever happens
OthersUntouched == Done => (Shared => (lst.has /\ Count(Q, lst.pids) = 1 /\ obj = "ok"))
ErrorOnlyIfFault == (Done /\ res # "ok") => first.nth > 0
\* C08
Unlocked == Done => ~refLocked /\ ~cidLocked /\ ~objLocked
Relevant == (FMode = "none" => FK = 1)
Dump == (Done /\ Relevant) => PrintT("TXN " \o ToJson(Outcome))
=============================================================================
