"""One function per property: check_Cxx(tier, seed) -> exit code."""
import json

from . import seqcheck
from .report import Verdict


def check_C03(tier, seed):
    return seqcheck.run("C03", tier, seed, "obj2" if tier == "quick" else "obj3")


def check_C04(tier, seed):
    return seqcheck.run("C04", tier, seed, "obj2" if tier == "quick" else "obj3")


def check_C05(tier, seed):
    return seqcheck.run("C05", tier, seed, "obj2" if tier == "quick" else "obj3")


def check_C11(tier, seed):
    return seqcheck.run("C11", tier, seed, "meta2" if tier == "quick" else "meta3")


def check_C17(tier, seed):
    return seqcheck.run("C17", tier, seed, "bad1" if tier == "quick" else "bad2",
                        walk_ops={"bad", "retrieve", "hex", "getmeta", "delete"})


def replay(prop, path):
    from . import replayer
    return replayer.replay(prop, path)
