#!/usr/bin/env python3
"""Regenerate MCImpl!ViewNoEv from the PlusCal translation's variable list (run after pcal)."""
import re
s = open('/verif/spec/impl/FileHashStore.tla').read()
m = re.search(r'^vars == << (.*?)>>', s, re.S | re.M)
vs = [v.strip() for v in m.group(1).replace('\n', ' ').split(',')]
vs = [v for v in vs if v and v != 'ev']
p = '/verif/spec/impl/MCImpl.tla'
t = open(p).read()
i = t.index('ViewNoEv ==')
j = t.index('=====', i)
t = t[:i] + 'ViewNoEv == <<' + ', '.join(vs) + '>>\n' + t[j:]
open(p, 'w').write(t)
print(len(vs), "variables in view")
