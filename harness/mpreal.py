"""C16 (c): real forked worker processes, real multiprocessing.Manager lists and locks,
OS scheduling.  One call per process, released together by a barrier; the collected results
and the final store state are judged for linearizability by TLC (TraceLin) exactly like the
scheduler-explored outcomes.  This part is sampling, not enumeration."""
import multiprocessing
import os
import shutil
import time

from . import absfn, tlc
from .conccheck import C, cstr, OBJ_INST, OBJ_STARTS
from .driver import Driver, load_hashstore, make_store
from .ids import Inst, write_inputs

SCENARIOS = [
    ("empty", [C("store", "p1", "a", "none"), C("store", "p2", "a", "none"),
               C("store", "p3", "a", "none"), C("store", "p1", "b", "none")]),
    ("shared", [C("delete", "p1"), C("delete", "p2"), C("store", "p3", "a", "none"),
                C("storenp", c="b")]),
    ("p1a", [C("tag", "p2", "a"), C("tag", "p3", "a"), C("delete", "p1"),
             C("store", "p1", "b", "none")]),
    ("unref", [C("tag", "p1", "a"), C("tag", "p1", "b"), C("store", "p2", "b", "none"),
               C("dii", c="a", val="good")]),
]


def _child(drv, call, barrier, q, idx):
    try:
        # os.fork() does not run multiprocessing's after-fork handlers: without them the child
        # would talk to the Manager over the PARENT's connection (replies get mixed up, and a
        # killed child leaves the parent waiting for an answer that was already consumed)
        import multiprocessing.util
        multiprocessing.util._run_after_forkers()
        barrier.wait(20)
        r = drv.call(call)
    except BaseException as e:  # noqa
        r = {"cls": "other:" + type(e).__name__, "cid": "-", "data": "-", "truth": True}
    q.put((idx, r))
    os._exit(0)


def _lists(store):
    out = {}
    for name, val in sorted(vars(store).items()):
        if "locked" in name and not name.startswith("_"):
            try:
                out[name] = list(val)
            except Exception:  # noqa
                out[name] = ["?"]
    return out


def run_scenario(start, calls, trials, base, fhs):
    inst = Inst(**OBJ_INST)
    os.makedirs(base, exist_ok=True)
    inputs = write_inputs(inst, os.path.join(base, "inputs"))
    template = os.path.join(base, "template")
    d0 = Driver(inst, template, inputs, fhs)
    for c in OBJ_STARTS[start]:
        d0.call(c)
    start_abs = absfn.abstract(template, inst)
    root = os.path.join(base, "store")
    shutil.copytree(template, root)
    store = make_store(fhs, inst.props(root), "mp-real")
    drv = Driver(inst, root, inputs, fhs, store=store)
    ctx = multiprocessing.get_context("fork")
    outcomes = {}
    t0 = time.time()
    for trial in range(trials):
        for name in os.listdir(root):
            p = os.path.join(root, name)
            shutil.rmtree(p) if os.path.isdir(p) else os.remove(p)
        shutil.copytree(template, root, dirs_exist_ok=True)
        barrier = ctx.Barrier(len(calls))
        q = ctx.SimpleQueue()
        procs = []
        for i, call in enumerate(calls):
            pid = os.fork()
            if pid == 0:
                _child(drv, call, barrier, q, i)
            procs.append(pid)
        results = {}
        deadline = time.time() + 30
        while len(results) < len(calls) and time.time() < deadline:
            if q.empty():
                time.sleep(0.005)
                continue
            i, r = q.get()
            results[i] = r
        hung = len(results) < len(calls)
        for pid in procs:
            if hung:
                try:
                    os.kill(pid, 9)
                except OSError:
                    pass
            try:
                os.waitpid(pid, 0)
            except OSError:
                pass
        final, junk = absfn.abstract(root, inst, detail=True)
        locks = _lists(store)
        res = {"t%d" % (i + 1): results.get(i, {"cls": "blocked", "cid": "-", "data": "-",
                                                 "truth": True}) for i in range(len(calls))}
        rec = {"outcome": "deadlock" if hung else "done", "results": res, "final": final,
               "junk": junk, "locks": locks, "schedule": ["os-scheduled trial %d" % trial],
               "pending": {}, "facts": {}, "trace": []}
        key = repr((rec["outcome"], sorted((k, v["cls"], v["cid"]) for k, v in res.items()),
                    final, locks))
        e = outcomes.get(key)
        if e is None:
            outcomes[key] = {"rec": rec, "count": 1, "blocked": any(locks.values()),
                             "followups": []}
        else:
            e["count"] += 1
        if hung:
            break
    threads = {"t%d" % (i + 1): c for i, c in enumerate(calls)}
    name = "C16real/%s/%s" % (start, "|".join(cstr(c) for c in calls))
    return {"scenario": {"name": name, "setup": OBJ_STARTS[start], "threads": threads,
                         "mode": "mp-real"},
            "family": "C07", "start_abs": start_abs, "outcomes": list(outcomes.values()),
            "states": [], "runs": trials, "steps": trials * len(calls), "visited": len(outcomes),
            "exhaustive": False, "nondet": 0, "wall": time.time() - t0, "inst": OBJ_INST}


def run(tier, seed):
    fhs, _ = load_hashstore()
    trials = 12 if tier == "quick" else 150
    base = os.path.join(tlc.scratch_root(), "mpreal.%d" % os.getpid())
    shutil.rmtree(base, ignore_errors=True)
    out = []
    ctx = multiprocessing.get_context("fork")
    try:
        for i, (start, calls) in enumerate(SCENARIOS):
            # each scenario in a process of its own, under a time limit: whatever a changed
            # code base does to the Manager, the check itself must come back
            rd, wr = ctx.Pipe(duplex=False)

            def job(i=i, start=start, calls=calls):
                os.setpgid(0, 0)
                try:
                    wr.send(run_scenario(start, calls, trials, os.path.join(base, "s%d" % i), fhs))
                except BaseException as e:  # noqa
                    wr.send({"error": "%s: %s" % (type(e).__name__, e)})
                os._exit(0)
            p = ctx.Process(target=job)
            p.start()
            limit = 60 + 6 * trials
            res = rd.recv() if rd.poll(limit) else {"error": "no result within %d s" % limit}
            try:
                os.killpg(p.pid, 9)
            except OSError:
                pass
            p.join(10)
            if "error" in res:
                threads = {"t%d" % (k + 1): c for k, c in enumerate(calls)}
                res = {"scenario": {"name": "C16real/%s/%s" % (start, "|".join(cstr(c) for c in calls)),
                                    "setup": OBJ_STARTS[start], "threads": threads, "mode": "mp-real"},
                       "family": "C07", "start_abs": None, "outcomes": [], "states": [], "runs": 0,
                       "steps": 0, "visited": 0, "exhaustive": False, "nondet": 0, "wall": limit,
                       "inst": OBJ_INST, "harness_error": res["error"]}
            out.append(res)
    finally:
        shutil.rmtree(base, ignore_errors=True)
    return out
