------------------------------- MODULE TagTxn -------------------------------
(***************************************************************************)
(* tag_object(p, c) for an UNBOUND pid as a transaction with roll-back,    *)
(* under one injected I/O failure (C13, C08).                              *)
(*                                                                         *)
(* The model follows _store_hashstore_refs_files / _untag_object and the   *)
(* fall-back revert (fix F11) operation by operation, at the grain of the  *)
(* harness's FAULT SITES on the permanent reference files:                 *)
(*   family "W"  : the destination cannot be written (opened for writing / *)
(*                 appending, written, truncated, renamed onto)            *)
(*   family "R"  : it cannot be opened for reading                         *)
(*   "flock", "remove"                                                     *)
(* Preparation (mkdir, the staged tmp files) is one abstract site: it      *)
(* fails before anything permanent exists.                                 *)
(* A failure is a one-off (FMode = "once": the FK-th site fails) or        *)
(* persists for that family and destination until the call returns         *)
(* (FMode = "persist"), exactly the injection model of harness/crashfault. *)
(* shutil.move = rename, and on failure copy + unlink (its fall-back).     *)
(*                                                                         *)
(* TLC checks, for every start (no list / list with another pid q), every  *)
(* site and both modes:  success only with the whole effect; otherwise p   *)
(* unbound (no reference, on no list), q's entry untouched, nothing        *)
(* locked.  Every terminal outcome is printed, keyed by the first failing  *)
(* site, and compared with what the real code did at that site.            *)
(***************************************************************************)
EXTENDS Naturals, Sequences, FiniteSets, TLC, Json

CONSTANT MaxK               \* largest index of a failing site that is tried
\* chosen in the initial state (one TLC run covers every combination):
\*   StartHasList : c's reference list exists and holds q
\*   ObjExists    : the object c is in the store
\*   FMode        : "none" | "once" | "persist";  FK : index of the failing site

None == "none"
P == "p"
Q == "q"
NoList == [has |-> FALSE, pids |-> <<>>]
Without(s, x) == SelectSeq(s, LAMBDA y : y # x)
InSeq(x, s) == \E k \in 1..Len(s) : s[k] = x
Count(x, s) == Cardinality({k \in 1..Len(s) : s[k] = x})

(* --algorithm TagTxn {
variables
  StartHasList \in BOOLEAN, ObjExists \in BOOLEAN,
  FMode \in {"none", "once", "persist"}, FK \in 1..MaxK,
  pref = None,                       \* content of p's reference
  lst = IF StartHasList THEN [has |-> TRUE, pids |-> <<Q>>] ELSE NoList,
  marks = {},                        \* *_delete markers that exist
  opn = 0, stuck = {}, failed = FALSE,
  first = [fam |-> "-", dest |-> "-", nth |-> 0],   \* the first failing site (ghost)
  cnt = [x \in {"W", "R", "flock", "remove", "prep"} \X {"pidref", "cidref", "pidrefdel", "cidrefdel", "tmp"} |-> 0],
  made = FALSE, exc = "-", uexc = "-", res = "-", cls = "-",
  refLocked = FALSE, cidLocked = FALSE;

define {
  Fails(n, fam, dest) == (FMode # "none" /\ n = FK) \/ <<fam, dest>> \in stuck
}

\* one fault site
macro Site(fam, dest) {
  failed := Fails(opn + 1, fam, dest);
  stuck := IF FMode = "persist" /\ opn + 1 = FK THEN stuck \cup {<<fam, dest>>} ELSE stuck;
  first := IF opn + 1 = FK /\ FMode # "none"
             THEN [fam |-> fam, dest |-> dest, nth |-> cnt[<<fam, dest>>] + 1] ELSE first;
  cnt[<<fam, dest>>] := cnt[<<fam, dest>>] + 1;
  opn := opn + 1;
}

\* shutil.move(src, dst): kind "pid" tmp -> pidref, "cid" tmp -> cidref,
\* "pdel" pidref -> pidref_delete, "cdel" cidref -> cidref_delete.  Sets exc on failure.
procedure move(kind)
  variables dst = "-", src = "-";
{
 mv0: \* a source that does not exist: FileNotFoundError, no fault site reached
      if ((kind = "pdel" /\ pref = None) \/ (kind = "cdel" /\ ~lst.has)) { exc := "fnf"; return; };
 mva: dst := CASE kind = "pid" -> "pidref" [] kind = "cid" -> "cidref"
               [] kind = "pdel" -> "pidrefdel" [] OTHER -> "cidrefdel";
      src := CASE kind = "pid" -> "tmp" [] kind = "cid" -> "tmp"
               [] kind = "pdel" -> "pidref" [] OTHER -> "cidref";
 mv1: Site("W", dst);                                   \* os.rename
 mv2: if (~failed) {
        if (kind = "pid") { pref := "c"; }
        else if (kind = "cid") { lst := [has |-> TRUE, pids |-> <<P>>]; }
        else if (kind = "pdel") { pref := None; marks := marks \cup {"pidrefdel"}; }
        else { lst := NoList; marks := marks \cup {"cidrefdel"}; };
        return;
      };
 mv3: Site("R", src);                                   \* fall-back: copy2 opens the source
 mv4: if (failed) { exc := "io"; return; };
 mv5: Site("W", dst);                                   \* ... creates the destination
 mv6: if (failed) { exc := "io"; return; };
 mv7: if (kind = "pid") { pref := "c"; }                \* copy complete
      else if (kind = "cid") { lst := [has |-> TRUE, pids |-> <<P>>]; }
      else if (kind = "pdel") { marks := marks \cup {"pidrefdel"}; }
      else { marks := marks \cup {"cidrefdel"}; };
 mv8: Site("remove", src);                              \* ... and unlinks the source
 mv9: if (failed) { exc := "io"; return; };
 mv10: if (kind = "pdel") { pref := None; } else if (kind = "cdel") { lst := NoList; };
       return;
}

\* _remove_pid_and_handle_cid_refs_deletion: every failure is swallowed
procedure rmfromlist()
{
 rl1: if (~lst.has) { return; };                        \* FileNotFoundError, swallowed
 rl2: Site("W", "cidref");                              \* open r+
 rl3: if (failed) { return; };
 rl4: Site("flock", "cidref");
 rl5: if (failed) { return; };
 rl6: Site("W", "cidref");                              \* writelines
 rl7: if (failed) { return; };
 rl8: Site("W", "cidref");                              \* truncate: the new content is a prefix
 rl9: if (failed) { return; };                          \*   of the old one, nothing changed yet
 rl10: lst := [has |-> TRUE, pids |-> Without(lst.pids, P)];
 rl11: if (lst.pids = <<>>) {
         call move("cdel");
 rl12:   exc := "-";                                    \* swallowed
       };
 rl13: return;
}

\* _delete_marked_files: failures swallowed
procedure delmarked()
  variables todo = {};
{
 dk1: todo := marks;
 dk2: while (todo # {}) {
        with (m \in todo) {
          Site("remove", m);
          todo := todo \ {m};
          if (~failed) { marks := marks \ {m}; };
        };
      };
 dk3: return;
}

\* _untag_object(p, c): _find_object decides the branch; a read failure propagates (uexc)
procedure untag()
{
 ut1: if (pref = None) { cls := "nopid"; goto ubranch; };          \* stat pidref
 ut2: Site("R", "pidref");                                          \* read pid reference
 ut3: if (failed) { uexc := "io"; return; };
 ut4: if (~lst.has) { cls := "orphan"; goto ubranch; };            \* stat cidref
 ut5: Site("R", "cidref");                                          \* is the pid on the list
 ut6: if (failed) { uexc := "io"; return; };
 ut7: if (~InSeq(P, lst.pids)) { cls := "notinlist"; }
      else if (ObjExists) { cls := "found"; } else { cls := "objmissing"; };
 ubranch:
      if (cls = "nopid") {
 un1:   call rmfromlist();
 un2:   call delmarked();
 un3:   return;
      } else if (cls \in {"orphan", "notinlist"}) {
 uo1:   Site("R", "pidref");                                        \* pid reference read again
 uo2:   if (failed) { uexc := "io"; return; };
 uo3:   call move("pdel");
 uo4:   exc := "-";                                                 \* swallowed
        call delmarked();
 uo5:   return;
      } else {
 ug1:   if (cls = "objmissing") {
 ug2:     Site("R", "pidref");                                      \* pid reference read again
 ug3:     if (failed) { uexc := "io"; return; };
        };
 uf1:   call move("pdel");
 uf2:   exc := "-";
        call rmfromlist();
 uf3:   call delmarked();
 uf4:   return;
      };
}

process (tagger = "t")
{
 t0:  refLocked := TRUE; cidLocked := TRUE;
 t1:  Site("prep", "tmp");                      \* mkdirs, staged pid (and cid) reference files
 t2:  if (failed) { exc := "io"; goto handler; };
 t3:  made := TRUE;
      call move("pid");
 t4:  if (exc # "-") { goto handler; };
 t5:  if (StartHasList) {
 b1:    Site("R", "cidref");                    \* _is_string_in_refs_file
 b2:    if (failed) { exc := "io"; goto handler; };
 b3:    Site("R", "cidref");                    \* again inside _update_refs_file
 b4:    if (failed) { exc := "io"; goto handler; };
 b5:    Site("W", "cidref");                    \* open for appending
 b6:    if (failed) { exc := "io"; goto handler; };
 b7:    Site("flock", "cidref");
 b8:    if (failed) { exc := "io"; goto handler; };
 b9:    Site("W", "cidref");                    \* write the line
 b10:   if (failed) { exc := "io"; goto handler; };
 b11:   lst := [has |-> TRUE, pids |-> Append(lst.pids, P)];
      } else {
 a1:    call move("cid");
 a2:    if (exc # "-") { goto handler; };
      };
 v1:  Site("R", "pidref");                      \* _verify_hashstore_references
 v2:  if (failed) { exc := "io"; goto handler; };
 v3:  Site("R", "cidref");
 v4:  if (failed) { exc := "io"; goto handler; };
 v5:  res := "ok"; goto fin;
 handler:
      if (made) {
        call untag();
 h2:    if (uexc # "-") {                       \* fall-back: remove directly what was created
          call move("pdel");
 h3:      exc := "-";
          if (lst.has) { call rmfromlist(); };
 h4:      call delmarked();
        };
      };
 h5:  res := "ioerror";
 fin: cidLocked := FALSE; refLocked := FALSE;
}
} *)
\* BEGIN TRANSLATION
CONSTANT defaultInitValue
VARIABLES pc, StartHasList, ObjExists, FMode, FK, pref, lst, marks, opn, 
          stuck, failed, first, cnt, made, exc, uexc, res, cls, refLocked, 
          cidLocked, stack

(* define statement *)
Fails(n, fam, dest) == (FMode # "none" /\ n = FK) \/ <<fam, dest>> \in stuck

VARIABLES kind, dst, src, todo

vars == << pc, StartHasList, ObjExists, FMode, FK, pref, lst, marks, opn, 
           stuck, failed, first, cnt, made, exc, uexc, res, cls, refLocked, 
           cidLocked, stack, kind, dst, src, todo >>

ProcSet == {"t"}

Init == (* Global variables *)
        /\ StartHasList \in BOOLEAN
        /\ ObjExists \in BOOLEAN
        /\ FMode \in {"none", "once", "persist"}
        /\ FK \in 1..MaxK
        /\ pref = None
        /\ lst = IF StartHasList THEN [has |-> TRUE, pids |-> <<Q>>] ELSE NoList
        /\ marks = {}
        /\ opn = 0
        /\ stuck = {}
        /\ failed = FALSE
        /\ first = [fam |-> "-", dest |-> "-", nth |-> 0]
        /\ cnt = [x \in {"W", "R", "flock", "remove", "prep"} \X {"pidref", "cidref", "pidrefdel", "cidrefdel", "tmp"} |-> 0]
        /\ made = FALSE
        /\ exc = "-"
        /\ uexc = "-"
        /\ res = "-"
        /\ cls = "-"
        /\ refLocked = FALSE
        /\ cidLocked = FALSE
        (* Procedure move *)
        /\ kind = [ self \in ProcSet |-> defaultInitValue]
        /\ dst = [ self \in ProcSet |-> "-"]
        /\ src = [ self \in ProcSet |-> "-"]
        (* Procedure delmarked *)
        /\ todo = [ self \in ProcSet |-> {}]
        /\ stack = [self \in ProcSet |-> << >>]
        /\ pc = [self \in ProcSet |-> "t0"]

mv0(self) == /\ pc[self] = "mv0"
             /\ IF (kind[self] = "pdel" /\ pref = None) \/ (kind[self] = "cdel" /\ ~lst.has)
                   THEN /\ exc' = "fnf"
                        /\ pc' = [pc EXCEPT ![self] = Head(stack[self]).pc]
                        /\ dst' = [dst EXCEPT ![self] = Head(stack[self]).dst]
                        /\ src' = [src EXCEPT ![self] = Head(stack[self]).src]
                        /\ kind' = [kind EXCEPT ![self] = Head(stack[self]).kind]
                        /\ stack' = [stack EXCEPT ![self] = Tail(stack[self])]
                   ELSE /\ pc' = [pc EXCEPT ![self] = "mva"]
                        /\ UNCHANGED << exc, stack, kind, dst, src >>
             /\ UNCHANGED << StartHasList, ObjExists, FMode, FK, pref, lst, 
                             marks, opn, stuck, failed, first, cnt, made, uexc, 
                             res, cls, refLocked, cidLocked, todo >>

mva(self) == /\ pc[self] = "mva"
             /\ dst' = [dst EXCEPT ![self] = CASE kind[self] = "pid" -> "pidref" [] kind[self] = "cid" -> "cidref"
                                               [] kind[self] = "pdel" -> "pidrefdel" [] OTHER -> "cidrefdel"]
             /\ src' = [src EXCEPT ![self] = CASE kind[self] = "pid" -> "tmp" [] kind[self] = "cid" -> "tmp"
                                               [] kind[self] = "pdel" -> "pidref" [] OTHER -> "cidref"]
             /\ pc' = [pc EXCEPT ![self] = "mv1"]
             /\ UNCHANGED << StartHasList, ObjExists, FMode, FK, pref, lst, 
                             marks, opn, stuck, failed, first, cnt, made, exc, 
                             uexc, res, cls, refLocked, cidLocked, stack, kind, 
                             todo >>

mv1(self) == /\ pc[self] = "mv1"
             /\ failed' = Fails(opn + 1, "W", dst[self])
             /\ stuck' = (IF FMode = "persist" /\ opn + 1 = FK THEN stuck \cup {<<"W", dst[self]>>} ELSE stuck)
             /\ first' = (IF opn + 1 = FK /\ FMode # "none"
                            THEN [fam |-> "W", dest |-> dst[self], nth |-> cnt[<<"W", dst[self]>>] + 1] ELSE first)
             /\ cnt' = [cnt EXCEPT ![<<"W", dst[self]>>] = cnt[<<"W", dst[self]>>] + 1]
             /\ opn' = opn + 1
             /\ pc' = [pc EXCEPT ![self] = "mv2"]
             /\ UNCHANGED << StartHasList, ObjExists, FMode, FK, pref, lst, 
                             marks, made, exc, uexc, res, cls, refLocked, 
                             cidLocked, stack, kind, dst, src, todo >>

mv2(self) == /\ pc[self] = "mv2"
             /\ IF ~failed
                   THEN /\ IF kind[self] = "pid"
                              THEN /\ pref' = "c"
                                   /\ UNCHANGED << lst, marks >>
                              ELSE /\ IF kind[self] = "cid"
                                         THEN /\ lst' = [has |-> TRUE, pids |-> <<P>>]
                                              /\ UNCHANGED << pref, marks >>
                                         ELSE /\ IF kind[self] = "pdel"
                                                    THEN /\ pref' = None
                                                         /\ marks' = (marks \cup {"pidrefdel"})
                                                         /\ lst' = lst
                                                    ELSE /\ lst' = NoList
                                                         /\ marks' = (marks \cup {"cidrefdel"})
                                                         /\ pref' = pref
                        /\ pc' = [pc EXCEPT ![self] = Head(stack[self]).pc]
                        /\ dst' = [dst EXCEPT ![self] = Head(stack[self]).dst]
                        /\ src' = [src EXCEPT ![self] = Head(stack[self]).src]
                        /\ kind' = [kind EXCEPT ![self] = Head(stack[self]).kind]
                        /\ stack' = [stack EXCEPT ![self] = Tail(stack[self])]
                   ELSE /\ pc' = [pc EXCEPT ![self] = "mv3"]
                        /\ UNCHANGED << pref, lst, marks, stack, kind, dst, 
                                        src >>
             /\ UNCHANGED << StartHasList, ObjExists, FMode, FK, opn, stuck, 
                             failed, first, cnt, made, exc, uexc, res, cls, 
                             refLocked, cidLocked, todo >>

mv3(self) == /\ pc[self] = "mv3"
             /\ failed' = Fails(opn + 1, "R", src[self])
             /\ stuck' = (IF FMode = "persist" /\ opn + 1 = FK THEN stuck \cup {<<"R", src[self]>>} ELSE stuck)
             /\ first' = (IF opn + 1 = FK /\ FMode # "none"
                            THEN [fam |-> "R", dest |-> src[self], nth |-> cnt[<<"R", src[self]>>] + 1] ELSE first)
             /\ cnt' = [cnt EXCEPT ![<<"R", src[self]>>] = cnt[<<"R", src[self]>>] + 1]
             /\ opn' = opn + 1
             /\ pc' = [pc EXCEPT ![self] = "mv4"]
             /\ UNCHANGED << StartHasList, ObjExists, FMode, FK, pref, lst, 
                             marks, made, exc, uexc, res, cls, refLocked, 
                             cidLocked, stack, kind, dst, src, todo >>

mv4(self) == /\ pc[self] = "mv4"
             /\ IF failed
                   THEN /\ exc' = "io"
                        /\ pc' = [pc EXCEPT ![self] = Head(stack[self]).pc]
                        /\ dst' = [dst EXCEPT ![self] = Head(stack[self]).dst]
                        /\ src' = [src EXCEPT ![self] = Head(stack[self]).src]
                        /\ kind' = [kind EXCEPT ![self] = Head(stack[self]).kind]
                        /\ stack' = [stack EXCEPT ![self] = Tail(stack[self])]
                   ELSE /\ pc' = [pc EXCEPT ![self] = "mv5"]
                        /\ UNCHANGED << exc, stack, kind, dst, src >>
             /\ UNCHANGED << StartHasList, ObjExists, FMode, FK, pref, lst, 
                             marks, opn, stuck, failed, first, cnt, made, uexc, 
                             res, cls, refLocked, cidLocked, todo >>

mv5(self) == /\ pc[self] = "mv5"
             /\ failed' = Fails(opn + 1, "W", dst[self])
             /\ stuck' = (IF FMode = "persist" /\ opn + 1 = FK THEN stuck \cup {<<"W", dst[self]>>} ELSE stuck)
             /\ first' = (IF opn + 1 = FK /\ FMode # "none"
                            THEN [fam |-> "W", dest |-> dst[self], nth |-> cnt[<<"W", dst[self]>>] + 1] ELSE first)
             /\ cnt' = [cnt EXCEPT ![<<"W", dst[self]>>] = cnt[<<"W", dst[self]>>] + 1]
             /\ opn' = opn + 1
             /\ pc' = [pc EXCEPT ![self] = "mv6"]
             /\ UNCHANGED << StartHasList, ObjExists, FMode, FK, pref, lst, 
                             marks, made, exc, uexc, res, cls, refLocked, 
                             cidLocked, stack, kind, dst, src, todo >>

mv6(self) == /\ pc[self] = "mv6"
             /\ IF failed
                   THEN /\ exc' = "io"
                        /\ pc' = [pc EXCEPT ![self] = Head(stack[self]).pc]
                        /\ dst' = [dst EXCEPT ![self] = Head(stack[self]).dst]
                        /\ src' = [src EXCEPT ![self] = Head(stack[self]).src]
                        /\ kind' = [kind EXCEPT ![self] = Head(stack[self]).kind]
                        /\ stack' = [stack EXCEPT ![self] = Tail(stack[self])]
                   ELSE /\ pc' = [pc EXCEPT ![self] = "mv7"]
                        /\ UNCHANGED << exc, stack, kind, dst, src >>
             /\ UNCHANGED << StartHasList, ObjExists, FMode, FK, pref, lst, 
                             marks, opn, stuck, failed, first, cnt, made, uexc, 
                             res, cls, refLocked, cidLocked, todo >>

mv7(self) == /\ pc[self] = "mv7"
             /\ IF kind[self] = "pid"
                   THEN /\ pref' = "c"
                        /\ UNCHANGED << lst, marks >>
                   ELSE /\ IF kind[self] = "cid"
                              THEN /\ lst' = [has |-> TRUE, pids |-> <<P>>]
                                   /\ marks' = marks
                              ELSE /\ IF kind[self] = "pdel"
                                         THEN /\ marks' = (marks \cup {"pidrefdel"})
                                         ELSE /\ marks' = (marks \cup {"cidrefdel"})
                                   /\ lst' = lst
                        /\ pref' = pref
             /\ pc' = [pc EXCEPT ![self] = "mv8"]
             /\ UNCHANGED << StartHasList, ObjExists, FMode, FK, opn, stuck, 
                             failed, first, cnt, made, exc, uexc, res, cls, 
                             refLocked, cidLocked, stack, kind, dst, src, todo >>

mv8(self) == /\ pc[self] = "mv8"
             /\ failed' = Fails(opn + 1, "remove", src[self])
             /\ stuck' = (IF FMode = "persist" /\ opn + 1 = FK THEN stuck \cup {<<"remove", src[self]>>} ELSE stuck)
             /\ first' = (IF opn + 1 = FK /\ FMode # "none"
                            THEN [fam |-> "remove", dest |-> src[self], nth |-> cnt[<<"remove", src[self]>>] + 1] ELSE first)
             /\ cnt' = [cnt EXCEPT ![<<"remove", src[self]>>] = cnt[<<"remove", src[self]>>] + 1]
             /\ opn' = opn + 1
             /\ pc' = [pc EXCEPT ![self] = "mv9"]
             /\ UNCHANGED << StartHasList, ObjExists, FMode, FK, pref, lst, 
                             marks, made, exc, uexc, res, cls, refLocked, 
                             cidLocked, stack, kind, dst, src, todo >>

mv9(self) == /\ pc[self] = "mv9"
             /\ IF failed
                   THEN /\ exc' = "io"
                        /\ pc' = [pc EXCEPT ![self] = Head(stack[self]).pc]
                        /\ dst' = [dst EXCEPT ![self] = Head(stack[self]).dst]
                        /\ src' = [src EXCEPT ![self] = Head(stack[self]).src]
                        /\ kind' = [kind EXCEPT ![self] = Head(stack[self]).kind]
                        /\ stack' = [stack EXCEPT ![self] = Tail(stack[self])]
                   ELSE /\ pc' = [pc EXCEPT ![self] = "mv10"]
                        /\ UNCHANGED << exc, stack, kind, dst, src >>
             /\ UNCHANGED << StartHasList, ObjExists, FMode, FK, pref, lst, 
                             marks, opn, stuck, failed, first, cnt, made, uexc, 
                             res, cls, refLocked, cidLocked, todo >>

mv10(self) == /\ pc[self] = "mv10"
              /\ IF kind[self] = "pdel"
                    THEN /\ pref' = None
                         /\ lst' = lst
                    ELSE /\ IF kind[self] = "cdel"
                               THEN /\ lst' = NoList
                               ELSE /\ TRUE
                                    /\ lst' = lst
                         /\ pref' = pref
              /\ pc' = [pc EXCEPT ![self] = Head(stack[self]).pc]
              /\ dst' = [dst EXCEPT ![self] = Head(stack[self]).dst]
              /\ src' = [src EXCEPT ![self] = Head(stack[self]).src]
              /\ kind' = [kind EXCEPT ![self] = Head(stack[self]).kind]
              /\ stack' = [stack EXCEPT ![self] = Tail(stack[self])]
              /\ UNCHANGED << StartHasList, ObjExists, FMode, FK, marks, opn, 
                              stuck, failed, first, cnt, made, exc, uexc, res, 
                              cls, refLocked, cidLocked, todo >>

move(self) == mv0(self) \/ mva(self) \/ mv1(self) \/ mv2(self) \/ mv3(self)
                 \/ mv4(self) \/ mv5(self) \/ mv6(self) \/ mv7(self)
                 \/ mv8(self) \/ mv9(self) \/ mv10(self)

rl1(self) == /\ pc[self] = "rl1"
             /\ IF ~lst.has
                   THEN /\ pc' = [pc EXCEPT ![self] = Head(stack[self]).pc]
                        /\ stack' = [stack EXCEPT ![self] = Tail(stack[self])]
                   ELSE /\ pc' = [pc EXCEPT ![self] = "rl2"]
                        /\ stack' = stack
             /\ UNCHANGED << StartHasList, ObjExists, FMode, FK, pref, lst, 
                             marks, opn, stuck, failed, first, cnt, made, exc, 
                             uexc, res, cls, refLocked, cidLocked, kind, dst, 
                             src, todo >>

rl2(self) == /\ pc[self] = "rl2"
             /\ failed' = Fails(opn + 1, "W", "cidref")
             /\ stuck' = (IF FMode = "persist" /\ opn + 1 = FK THEN stuck \cup {<<"W", "cidref">>} ELSE stuck)
             /\ first' = (IF opn + 1 = FK /\ FMode # "none"
                            THEN [fam |-> "W", dest |-> "cidref", nth |-> cnt[<<"W", "cidref">>] + 1] ELSE first)
             /\ cnt' = [cnt EXCEPT ![<<"W", "cidref">>] = cnt[<<"W", "cidref">>] + 1]
             /\ opn' = opn + 1
             /\ pc' = [pc EXCEPT ![self] = "rl3"]
             /\ UNCHANGED << StartHasList, ObjExists, FMode, FK, pref, lst, 
                             marks, made, exc, uexc, res, cls, refLocked, 
                             cidLocked, stack, kind, dst, src, todo >>

rl3(self) == /\ pc[self] = "rl3"
             /\ IF failed
                   THEN /\ pc' = [pc EXCEPT ![self] = Head(stack[self]).pc]
                        /\ stack' = [stack EXCEPT ![self] = Tail(stack[self])]
                   ELSE /\ pc' = [pc EXCEPT ![self] = "rl4"]
                        /\ stack' = stack
             /\ UNCHANGED << StartHasList, ObjExists, FMode, FK, pref, lst, 
                             marks, opn, stuck, failed, first, cnt, made, exc, 
                             uexc, res, cls, refLocked, cidLocked, kind, dst, 
                             src, todo >>

rl4(self) == /\ pc[self] = "rl4"
             /\ failed' = Fails(opn + 1, "flock", "cidref")
             /\ stuck' = (IF FMode = "persist" /\ opn + 1 = FK THEN stuck \cup {<<"flock", "cidref">>} ELSE stuck)
             /\ first' = (IF opn + 1 = FK /\ FMode # "none"
                            THEN [fam |-> "flock", dest |-> "cidref", nth |-> cnt[<<"flock", "cidref">>] + 1] ELSE first)
             /\ cnt' = [cnt EXCEPT ![<<"flock", "cidref">>] = cnt[<<"flock", "cidref">>] + 1]
             /\ opn' = opn + 1
             /\ pc' = [pc EXCEPT ![self] = "rl5"]
             /\ UNCHANGED << StartHasList, ObjExists, FMode, FK, pref, lst, 
                             marks, made, exc, uexc, res, cls, refLocked, 
                             cidLocked, stack, kind, dst, src, todo >>

rl5(self) == /\ pc[self] = "rl5"
             /\ IF failed
                   THEN /\ pc' = [pc EXCEPT ![self] = Head(stack[self]).pc]
                        /\ stack' = [stack EXCEPT ![self] = Tail(stack[self])]
                   ELSE /\ pc' = [pc EXCEPT ![self] = "rl6"]
                        /\ stack' = stack
             /\ UNCHANGED << StartHasList, ObjExists, FMode, FK, pref, lst, 
                             marks, opn, stuck, failed, first, cnt, made, exc, 
                             uexc, res, cls, refLocked, cidLocked, kind, dst, 
                             src, todo >>

rl6(self) == /\ pc[self] = "rl6"
             /\ failed' = Fails(opn + 1, "W", "cidref")
             /\ stuck' = (IF FMode = "persist" /\ opn + 1 = FK THEN stuck \cup {<<"W", "cidref">>} ELSE stuck)
             /\ first' = (IF opn + 1 = FK /\ FMode # "none"
                            THEN [fam |-> "W", dest |-> "cidref", nth |-> cnt[<<"W", "cidref">>] + 1] ELSE first)
             /\ cnt' = [cnt EXCEPT ![<<"W", "cidref">>] = cnt[<<"W", "cidref">>] + 1]
             /\ opn' = opn + 1
             /\ pc' = [pc EXCEPT ![self] = "rl7"]
             /\ UNCHANGED << StartHasList, ObjExists, FMode, FK, pref, lst, 
                             marks, made, exc, uexc, res, cls, refLocked, 
                             cidLocked, stack, kind, dst, src, todo >>

rl7(self) == /\ pc[self] = "rl7"
             /\ IF failed
                   THEN /\ pc' = [pc EXCEPT ![self] = Head(stack[self]).pc]
                        /\ stack' = [stack EXCEPT ![self] = Tail(stack[self])]
                   ELSE /\ pc' = [pc EXCEPT ![self] = "rl8"]
                        /\ stack' = stack
             /\ UNCHANGED << StartHasList, ObjExists, FMode, FK, pref, lst, 
                             marks, opn, stuck, failed, first, cnt, made, exc, 
                             uexc, res, cls, refLocked, cidLocked, kind, dst, 
                             src, todo >>

rl8(self) == /\ pc[self] = "rl8"
             /\ failed' = Fails(opn + 1, "W", "cidref")
             /\ stuck' = (IF FMode = "persist" /\ opn + 1 = FK THEN stuck \cup {<<"W", "cidref">>} ELSE stuck)
             /\ first' = (IF opn + 1 = FK /\ FMode # "none"
                            THEN [fam |-> "W", dest |-> "cidref", nth |-> cnt[<<"W", "cidref">>] + 1] ELSE first)
             /\ cnt' = [cnt EXCEPT ![<<"W", "cidref">>] = cnt[<<"W", "cidref">>] + 1]
             /\ opn' = opn + 1
             /\ pc' = [pc EXCEPT ![self] = "rl9"]
             /\ UNCHANGED << StartHasList, ObjExists, FMode, FK, pref, lst, 
                             marks, made, exc, uexc, res, cls, refLocked, 
                             cidLocked, stack, kind, dst, src, todo >>

rl9(self) == /\ pc[self] = "rl9"
             /\ IF failed
                   THEN /\ pc' = [pc EXCEPT ![self] = Head(stack[self]).pc]
                        /\ stack' = [stack EXCEPT ![self] = Tail(stack[self])]
                   ELSE /\ pc' = [pc EXCEPT ![self] = "rl10"]
                        /\ stack' = stack
             /\ UNCHANGED << StartHasList, ObjExists, FMode, FK, pref, lst, 
                             marks, opn, stuck, failed, first, cnt, made, exc, 
                             uexc, res, cls, refLocked, cidLocked, kind, dst, 
                             src, todo >>

rl10(self) == /\ pc[self] = "rl10"
              /\ lst' = [has |-> TRUE, pids |-> Without(lst.pids, P)]
              /\ pc' = [pc EXCEPT ![self] = "rl11"]
              /\ UNCHANGED << StartHasList, ObjExists, FMode, FK, pref, marks, 
                              opn, stuck, failed, first, cnt, made, exc, uexc, 
                              res, cls, refLocked, cidLocked, stack, kind, dst, 
                              src, todo >>

rl11(self) == /\ pc[self] = "rl11"
              /\ IF lst.pids = <<>>
                    THEN /\ /\ kind' = [kind EXCEPT ![self] = "cdel"]
                            /\ stack' = [stack EXCEPT ![self] = << [ procedure |->  "move",
                                                                     pc        |->  "rl12",
                                                                     dst       |->  dst[self],
                                                                     src       |->  src[self],
                                                                     kind      |->  kind[self] ] >>
                                                                 \o stack[self]]
                         /\ dst' = [dst EXCEPT ![self] = "-"]
                         /\ src' = [src EXCEPT ![self] = "-"]
                         /\ pc' = [pc EXCEPT ![self] = "mv0"]
                    ELSE /\ pc' = [pc EXCEPT ![self] = "rl13"]
                         /\ UNCHANGED << stack, kind, dst, src >>
              /\ UNCHANGED << StartHasList, ObjExists, FMode, FK, pref, lst, 
                              marks, opn, stuck, failed, first, cnt, made, exc, 
                              uexc, res, cls, refLocked, cidLocked, todo >>

rl12(self) == /\ pc[self] = "rl12"
              /\ exc' = "-"
              /\ pc' = [pc EXCEPT ![self] = "rl13"]
              /\ UNCHANGED << StartHasList, ObjExists, FMode, FK, pref, lst, 
                              marks, opn, stuck, failed, first, cnt, made, 
                              uexc, res, cls, refLocked, cidLocked, stack, 
                              kind, dst, src, todo >>

rl13(self) == /\ pc[self] = "rl13"
              /\ pc' = [pc EXCEPT ![self] = Head(stack[self]).pc]
              /\ stack' = [stack EXCEPT ![self] = Tail(stack[self])]
              /\ UNCHANGED << StartHasList, ObjExists, FMode, FK, pref, lst, 
                              marks, opn, stuck, failed, first, cnt, made, exc, 
                              uexc, res, cls, refLocked, cidLocked, kind, dst, 
                              src, todo >>

rmfromlist(self) == rl1(self) \/ rl2(self) \/ rl3(self) \/ rl4(self)
                       \/ rl5(self) \/ rl6(self) \/ rl7(self) \/ rl8(self)
                       \/ rl9(self) \/ rl10(self) \/ rl11(self)
                       \/ rl12(self) \/ rl13(self)

dk1(self) == /\ pc[self] = "dk1"
             /\ todo' = [todo EXCEPT ![self] = marks]
             /\ pc' = [pc EXCEPT ![self] = "dk2"]
             /\ UNCHANGED << StartHasList, ObjExists, FMode, FK, pref, lst, 
                             marks, opn, stuck, failed, first, cnt, made, exc, 
                             uexc, res, cls, refLocked, cidLocked, stack, kind, 
                             dst, src >>

dk2(self) == /\ pc[self] = "dk2"
             /\ IF todo[self] # {}
                   THEN /\ \E m \in todo[self]:
                             /\ failed' = Fails(opn + 1, "remove", m)
                             /\ stuck' = (IF FMode = "persist" /\ opn + 1 = FK THEN stuck \cup {<<"remove", m>>} ELSE stuck)
                             /\ first' = (IF opn + 1 = FK /\ FMode # "none"
                                            THEN [fam |-> "remove", dest |-> m, nth |-> cnt[<<"remove", m>>] + 1] ELSE first)
                             /\ cnt' = [cnt EXCEPT ![<<"remove", m>>] = cnt[<<"remove", m>>] + 1]
                             /\ opn' = opn + 1
                             /\ todo' = [todo EXCEPT ![self] = todo[self] \ {m}]
                             /\ IF ~failed'
                                   THEN /\ marks' = marks \ {m}
                                   ELSE /\ TRUE
                                        /\ marks' = marks
                        /\ pc' = [pc EXCEPT ![self] = "dk2"]
                   ELSE /\ pc' = [pc EXCEPT ![self] = "dk3"]
                        /\ UNCHANGED << marks, opn, stuck, failed, first, cnt, 
                                        todo >>
             /\ UNCHANGED << StartHasList, ObjExists, FMode, FK, pref, lst, 
                             made, exc, uexc, res, cls, refLocked, cidLocked, 
                             stack, kind, dst, src >>

dk3(self) == /\ pc[self] = "dk3"
             /\ pc' = [pc EXCEPT ![self] = Head(stack[self]).pc]
             /\ todo' = [todo EXCEPT ![self] = Head(stack[self]).todo]
             /\ stack' = [stack EXCEPT ![self] = Tail(stack[self])]
             /\ UNCHANGED << StartHasList, ObjExists, FMode, FK, pref, lst, 
                             marks, opn, stuck, failed, first, cnt, made, exc, 
                             uexc, res, cls, refLocked, cidLocked, kind, dst, 
                             src >>

delmarked(self) == dk1(self) \/ dk2(self) \/ dk3(self)

ut1(self) == /\ pc[self] = "ut1"
             /\ IF pref = None
                   THEN /\ cls' = "nopid"
                        /\ pc' = [pc EXCEPT ![self] = "ubranch"]
                   ELSE /\ pc' = [pc EXCEPT ![self] = "ut2"]
                        /\ cls' = cls
             /\ UNCHANGED << StartHasList, ObjExists, FMode, FK, pref, lst, 
                             marks, opn, stuck, failed, first, cnt, made, exc, 
                             uexc, res, refLocked, cidLocked, stack, kind, dst, 
                             src, todo >>

ut2(self) == /\ pc[self] = "ut2"
             /\ failed' = Fails(opn + 1, "R", "pidref")
             /\ stuck' = (IF FMode = "persist" /\ opn + 1 = FK THEN stuck \cup {<<"R", "pidref">>} ELSE stuck)
             /\ first' = (IF opn + 1 = FK /\ FMode # "none"
                            THEN [fam |-> "R", dest |-> "pidref", nth |-> cnt[<<"R", "pidref">>] + 1] ELSE first)
             /\ cnt' = [cnt EXCEPT ![<<"R", "pidref">>] = cnt[<<"R", "pidref">>] + 1]
             /\ opn' = opn + 1
             /\ pc' = [pc EXCEPT ![self] = "ut3"]
             /\ UNCHANGED << StartHasList, ObjExists, FMode, FK, pref, lst, 
                             marks, made, exc, uexc, res, cls, refLocked, 
                             cidLocked, stack, kind, dst, src, todo >>

ut3(self) == /\ pc[self] = "ut3"
             /\ IF failed
                   THEN /\ uexc' = "io"
                        /\ pc' = [pc EXCEPT ![self] = Head(stack[self]).pc]
                        /\ stack' = [stack EXCEPT ![self] = Tail(stack[self])]
                   ELSE /\ pc' = [pc EXCEPT ![self] = "ut4"]
                        /\ UNCHANGED << uexc, stack >>
             /\ UNCHANGED << StartHasList, ObjExists, FMode, FK, pref, lst, 
                             marks, opn, stuck, failed, first, cnt, made, exc, 
                             res, cls, refLocked, cidLocked, kind, dst, src, 
                             todo >>

ut4(self) == /\ pc[self] = "ut4"
             /\ IF ~lst.has
                   THEN /\ cls' = "orphan"
                        /\ pc' = [pc EXCEPT ![self] = "ubranch"]
                   ELSE /\ pc' = [pc EXCEPT ![self] = "ut5"]
                        /\ cls' = cls
             /\ UNCHANGED << StartHasList, ObjExists, FMode, FK, pref, lst, 
                             marks, opn, stuck, failed, first, cnt, made, exc, 
                             uexc, res, refLocked, cidLocked, stack, kind, dst, 
                             src, todo >>

ut5(self) == /\ pc[self] = "ut5"
             /\ failed' = Fails(opn + 1, "R", "cidref")
             /\ stuck' = (IF FMode = "persist" /\ opn + 1 = FK THEN stuck \cup {<<"R", "cidref">>} ELSE stuck)
             /\ first' = (IF opn + 1 = FK /\ FMode # "none"
                            THEN [fam |-> "R", dest |-> "cidref", nth |-> cnt[<<"R", "cidref">>] + 1] ELSE first)
             /\ cnt' = [cnt EXCEPT ![<<"R", "cidref">>] = cnt[<<"R", "cidref">>] + 1]
             /\ opn' = opn + 1
             /\ pc' = [pc EXCEPT ![self] = "ut6"]
             /\ UNCHANGED << StartHasList, ObjExists, FMode, FK, pref, lst, 
                             marks, made, exc, uexc, res, cls, refLocked, 
                             cidLocked, stack, kind, dst, src, todo >>

ut6(self) == /\ pc[self] = "ut6"
             /\ IF failed
                   THEN /\ uexc' = "io"
                        /\ pc' = [pc EXCEPT ![self] = Head(stack[self]).pc]
                        /\ stack' = [stack EXCEPT ![self] = Tail(stack[self])]
                   ELSE /\ pc' = [pc EXCEPT ![self] = "ut7"]
                        /\ UNCHANGED << uexc, stack >>
             /\ UNCHANGED << StartHasList, ObjExists, FMode, FK, pref, lst, 
                             marks, opn, stuck, failed, first, cnt, made, exc, 
                             res, cls, refLocked, cidLocked, kind, dst, src, 
                             todo >>

ut7(self) == /\ pc[self] = "ut7"
             /\ IF ~InSeq(P, lst.pids)
                   THEN /\ cls' = "notinlist"
                   ELSE /\ IF ObjExists
                              THEN /\ cls' = "found"
                              ELSE /\ cls' = "objmissing"
             /\ pc' = [pc EXCEPT ![self] = "ubranch"]
             /\ UNCHANGED << StartHasList, ObjExists, FMode, FK, pref, lst, 
                             marks, opn, stuck, failed, first, cnt, made, exc, 
                             uexc, res, refLocked, cidLocked, stack, kind, dst, 
                             src, todo >>

ubranch(self) == /\ pc[self] = "ubranch"
                 /\ IF cls = "nopid"
                       THEN /\ pc' = [pc EXCEPT ![self] = "un1"]
                       ELSE /\ IF cls \in {"orphan", "notinlist"}
                                  THEN /\ pc' = [pc EXCEPT ![self] = "uo1"]
                                  ELSE /\ pc' = [pc EXCEPT ![self] = "ug1"]
                 /\ UNCHANGED << StartHasList, ObjExists, FMode, FK, pref, lst, 
                                 marks, opn, stuck, failed, first, cnt, made, 
                                 exc, uexc, res, cls, refLocked, cidLocked, 
                                 stack, kind, dst, src, todo >>

un1(self) == /\ pc[self] = "un1"
             /\ stack' = [stack EXCEPT ![self] = << [ procedure |->  "rmfromlist",
                                                      pc        |->  "un2" ] >>
                                                  \o stack[self]]
             /\ pc' = [pc EXCEPT ![self] = "rl1"]
             /\ UNCHANGED << StartHasList, ObjExists, FMode, FK, pref, lst, 
                             marks, opn, stuck, failed, first, cnt, made, exc, 
                             uexc, res, cls, refLocked, cidLocked, kind, dst, 
                             src, todo >>

un2(self) == /\ pc[self] = "un2"
             /\ stack' = [stack EXCEPT ![self] = << [ procedure |->  "delmarked",
                                                      pc        |->  "un3",
                                                      todo      |->  todo[self] ] >>
                                                  \o stack[self]]
             /\ todo' = [todo EXCEPT ![self] = {}]
             /\ pc' = [pc EXCEPT ![self] = "dk1"]
             /\ UNCHANGED << StartHasList, ObjExists, FMode, FK, pref, lst, 
                             marks, opn, stuck, failed, first, cnt, made, exc, 
                             uexc, res, cls, refLocked, cidLocked, kind, dst, 
                             src >>

un3(self) == /\ pc[self] = "un3"
             /\ pc' = [pc EXCEPT ![self] = Head(stack[self]).pc]
             /\ stack' = [stack EXCEPT ![self] = Tail(stack[self])]
             /\ UNCHANGED << StartHasList, ObjExists, FMode, FK, pref, lst, 
                             marks, opn, stuck, failed, first, cnt, made, exc, 
                             uexc, res, cls, refLocked, cidLocked, kind, dst, 
                             src, todo >>

uo1(self) == /\ pc[self] = "uo1"
             /\ failed' = Fails(opn + 1, "R", "pidref")
             /\ stuck' = (IF FMode = "persist" /\ opn + 1 = FK THEN stuck \cup {<<"R", "pidref">>} ELSE stuck)
             /\ first' = (IF opn + 1 = FK /\ FMode # "none"
                            THEN [fam |-> "R", dest |-> "pidref", nth |-> cnt[<<"R", "pidref">>] + 1] ELSE first)
             /\ cnt' = [cnt EXCEPT ![<<"R", "pidref">>] = cnt[<<"R", "pidref">>] + 1]
             /\ opn' = opn + 1
             /\ pc' = [pc EXCEPT ![self] = "uo2"]
             /\ UNCHANGED << StartHasList, ObjExists, FMode, FK, pref, lst, 
                             marks, made, exc, uexc, res, cls, refLocked, 
                             cidLocked, stack, kind, dst, src, todo >>

uo2(self) == /\ pc[self] = "uo2"
             /\ IF failed
                   THEN /\ uexc' = "io"
                        /\ pc' = [pc EXCEPT ![self] = Head(stack[self]).pc]
                        /\ stack' = [stack EXCEPT ![self] = Tail(stack[self])]
                   ELSE /\ pc' = [pc EXCEPT ![self] = "uo3"]
                        /\ UNCHANGED << uexc, stack >>
             /\ UNCHANGED << StartHasList, ObjExists, FMode, FK, pref, lst, 
                             marks, opn, stuck, failed, first, cnt, made, exc, 
                             res, cls, refLocked, cidLocked, kind, dst, src, 
                             todo >>

uo3(self) == /\ pc[self] = "uo3"
             /\ /\ kind' = [kind EXCEPT ![self] = "pdel"]
                /\ stack' = [stack EXCEPT ![self] = << [ procedure |->  "move",
                                                         pc        |->  "uo4",
                                                         dst       |->  dst[self],
                                                         src       |->  src[self],
                                                         kind      |->  kind[self] ] >>
                                                     \o stack[self]]
             /\ dst' = [dst EXCEPT ![self] = "-"]
             /\ src' = [src EXCEPT ![self] = "-"]
             /\ pc' = [pc EXCEPT ![self] = "mv0"]
             /\ UNCHANGED << StartHasList, ObjExists, FMode, FK, pref, lst, 
                             marks, opn, stuck, failed, first, cnt, made, exc, 
                             uexc, res, cls, refLocked, cidLocked, todo >>

uo4(self) == /\ pc[self] = "uo4"
             /\ exc' = "-"
             /\ stack' = [stack EXCEPT ![self] = << [ procedure |->  "delmarked",
                                                      pc        |->  "uo5",
                                                      todo      |->  todo[self] ] >>
                                                  \o stack[self]]
             /\ todo' = [todo EXCEPT ![self] = {}]
             /\ pc' = [pc EXCEPT ![self] = "dk1"]
             /\ UNCHANGED << StartHasList, ObjExists, FMode, FK, pref, lst, 
                             marks, opn, stuck, failed, first, cnt, made, uexc, 
                             res, cls, refLocked, cidLocked, kind, dst, src >>

uo5(self) == /\ pc[self] = "uo5"
             /\ pc' = [pc EXCEPT ![self] = Head(stack[self]).pc]
             /\ stack' = [stack EXCEPT ![self] = Tail(stack[self])]
             /\ UNCHANGED << StartHasList, ObjExists, FMode, FK, pref, lst, 
                             marks, opn, stuck, failed, first, cnt, made, exc, 
                             uexc, res, cls, refLocked, cidLocked, kind, dst, 
                             src, todo >>

ug1(self) == /\ pc[self] = "ug1"
             /\ IF cls = "objmissing"
                   THEN /\ pc' = [pc EXCEPT ![self] = "ug2"]
                   ELSE /\ pc' = [pc EXCEPT ![self] = "uf1"]
             /\ UNCHANGED << StartHasList, ObjExists, FMode, FK, pref, lst, 
                             marks, opn, stuck, failed, first, cnt, made, exc, 
                             uexc, res, cls, refLocked, cidLocked, stack, kind, 
                             dst, src, todo >>

ug2(self) == /\ pc[self] = "ug2"
             /\ failed' = Fails(opn + 1, "R", "pidref")
             /\ stuck' = (IF FMode = "persist" /\ opn + 1 = FK THEN stuck \cup {<<"R", "pidref">>} ELSE stuck)
             /\ first' = (IF opn + 1 = FK /\ FMode # "none"
                            THEN [fam |-> "R", dest |-> "pidref", nth |-> cnt[<<"R", "pidref">>] + 1] ELSE first)
             /\ cnt' = [cnt EXCEPT ![<<"R", "pidref">>] = cnt[<<"R", "pidref">>] + 1]
             /\ opn' = opn + 1
             /\ pc' = [pc EXCEPT ![self] = "ug3"]
             /\ UNCHANGED << StartHasList, ObjExists, FMode, FK, pref, lst, 
                             marks, made, exc, uexc, res, cls, refLocked, 
                             cidLocked, stack, kind, dst, src, todo >>

ug3(self) == /\ pc[self] = "ug3"
             /\ IF failed
                   THEN /\ uexc' = "io"
                        /\ pc' = [pc EXCEPT ![self] = Head(stack[self]).pc]
                        /\ stack' = [stack EXCEPT ![self] = Tail(stack[self])]
                   ELSE /\ pc' = [pc EXCEPT ![self] = "uf1"]
                        /\ UNCHANGED << uexc, stack >>
             /\ UNCHANGED << StartHasList, ObjExists, FMode, FK, pref, lst, 
                             marks, opn, stuck, failed, first, cnt, made, exc, 
                             res, cls, refLocked, cidLocked, kind, dst, src, 
                             todo >>

uf1(self) == /\ pc[self] = "uf1"
             /\ /\ kind' = [kind EXCEPT ![self] = "pdel"]
                /\ stack' = [stack EXCEPT ![self] = << [ procedure |->  "move",
                                                         pc        |->  "uf2",
                                                         dst       |->  dst[self],
                                                         src       |->  src[self],
                                                         kind      |->  kind[self] ] >>
                                                     \o stack[self]]
             /\ dst' = [dst EXCEPT ![self] = "-"]
             /\ src' = [src EXCEPT ![self] = "-"]
             /\ pc' = [pc EXCEPT ![self] = "mv0"]
             /\ UNCHANGED << StartHasList, ObjExists, FMode, FK, pref, lst, 
                             marks, opn, stuck, failed, first, cnt, made, exc, 
                             uexc, res, cls, refLocked, cidLocked, todo >>

uf2(self) == /\ pc[self] = "uf2"
             /\ exc' = "-"
             /\ stack' = [stack EXCEPT ![self] = << [ procedure |->  "rmfromlist",
                                                      pc        |->  "uf3" ] >>
                                                  \o stack[self]]
             /\ pc' = [pc EXCEPT ![self] = "rl1"]
             /\ UNCHANGED << StartHasList, ObjExists, FMode, FK, pref, lst, 
                             marks, opn, stuck, failed, first, cnt, made, uexc, 
                             res, cls, refLocked, cidLocked, kind, dst, src, 
                             todo >>

uf3(self) == /\ pc[self] = "uf3"
             /\ stack' = [stack EXCEPT ![self] = << [ procedure |->  "delmarked",
                                                      pc        |->  "uf4",
                                                      todo      |->  todo[self] ] >>
                                                  \o stack[self]]
             /\ todo' = [todo EXCEPT ![self] = {}]
             /\ pc' = [pc EXCEPT ![self] = "dk1"]
             /\ UNCHANGED << StartHasList, ObjExists, FMode, FK, pref, lst, 
                             marks, opn, stuck, failed, first, cnt, made, exc, 
                             uexc, res, cls, refLocked, cidLocked, kind, dst, 
                             src >>

uf4(self) == /\ pc[self] = "uf4"
             /\ pc' = [pc EXCEPT ![self] = Head(stack[self]).pc]
             /\ stack' = [stack EXCEPT ![self] = Tail(stack[self])]
             /\ UNCHANGED << StartHasList, ObjExists, FMode, FK, pref, lst, 
                             marks, opn, stuck, failed, first, cnt, made, exc, 
                             uexc, res, cls, refLocked, cidLocked, kind, dst, 
                             src, todo >>

untag(self) == ut1(self) \/ ut2(self) \/ ut3(self) \/ ut4(self)
                  \/ ut5(self) \/ ut6(self) \/ ut7(self) \/ ubranch(self)
                  \/ un1(self) \/ un2(self) \/ un3(self) \/ uo1(self)
                  \/ uo2(self) \/ uo3(self) \/ uo4(self) \/ uo5(self)
                  \/ ug1(self) \/ ug2(self) \/ ug3(self) \/ uf1(self)
                  \/ uf2(self) \/ uf3(self) \/ uf4(self)

t0 == /\ pc["t"] = "t0"
      /\ refLocked' = TRUE
      /\ cidLocked' = TRUE
      /\ pc' = [pc EXCEPT !["t"] = "t1"]
      /\ UNCHANGED << StartHasList, ObjExists, FMode, FK, pref, lst, marks, 
                      opn, stuck, failed, first, cnt, made, exc, uexc, res, 
                      cls, stack, kind, dst, src, todo >>

t1 == /\ pc["t"] = "t1"
      /\ failed' = Fails(opn + 1, "prep", "tmp")
      /\ stuck' = (IF FMode = "persist" /\ opn + 1 = FK THEN stuck \cup {<<"prep", "tmp">>} ELSE stuck)
      /\ first' = (IF opn + 1 = FK /\ FMode # "none"
                     THEN [fam |-> "prep", dest |-> "tmp", nth |-> cnt[<<"prep", "tmp">>] + 1] ELSE first)
      /\ cnt' = [cnt EXCEPT ![<<"prep", "tmp">>] = cnt[<<"prep", "tmp">>] + 1]
      /\ opn' = opn + 1
      /\ pc' = [pc EXCEPT !["t"] = "t2"]
      /\ UNCHANGED << StartHasList, ObjExists, FMode, FK, pref, lst, marks, 
                      made, exc, uexc, res, cls, refLocked, cidLocked, stack, 
                      kind, dst, src, todo >>

t2 == /\ pc["t"] = "t2"
      /\ IF failed
            THEN /\ exc' = "io"
                 /\ pc' = [pc EXCEPT !["t"] = "handler"]
            ELSE /\ pc' = [pc EXCEPT !["t"] = "t3"]
                 /\ exc' = exc
      /\ UNCHANGED << StartHasList, ObjExists, FMode, FK, pref, lst, marks, 
                      opn, stuck, failed, first, cnt, made, uexc, res, cls, 
                      refLocked, cidLocked, stack, kind, dst, src, todo >>

t3 == /\ pc["t"] = "t3"
      /\ made' = TRUE
      /\ /\ kind' = [kind EXCEPT !["t"] = "pid"]
         /\ stack' = [stack EXCEPT !["t"] = << [ procedure |->  "move",
                                                 pc        |->  "t4",
                                                 dst       |->  dst["t"],
                                                 src       |->  src["t"],
                                                 kind      |->  kind["t"] ] >>
                                             \o stack["t"]]
      /\ dst' = [dst EXCEPT !["t"] = "-"]
      /\ src' = [src EXCEPT !["t"] = "-"]
      /\ pc' = [pc EXCEPT !["t"] = "mv0"]
      /\ UNCHANGED << StartHasList, ObjExists, FMode, FK, pref, lst, marks, 
                      opn, stuck, failed, first, cnt, exc, uexc, res, cls, 
                      refLocked, cidLocked, todo >>

t4 == /\ pc["t"] = "t4"
      /\ IF exc # "-"
            THEN /\ pc' = [pc EXCEPT !["t"] = "handler"]
            ELSE /\ pc' = [pc EXCEPT !["t"] = "t5"]
      /\ UNCHANGED << StartHasList, ObjExists, FMode, FK, pref, lst, marks, 
                      opn, stuck, failed, first, cnt, made, exc, uexc, res, 
                      cls, refLocked, cidLocked, stack, kind, dst, src, todo >>

t5 == /\ pc["t"] = "t5"
      /\ IF StartHasList
            THEN /\ pc' = [pc EXCEPT !["t"] = "b1"]
            ELSE /\ pc' = [pc EXCEPT !["t"] = "a1"]
      /\ UNCHANGED << StartHasList, ObjExists, FMode, FK, pref, lst, marks, 
                      opn, stuck, failed, first, cnt, made, exc, uexc, res, 
                      cls, refLocked, cidLocked, stack, kind, dst, src, todo >>

b1 == /\ pc["t"] = "b1"
      /\ failed' = Fails(opn + 1, "R", "cidref")
      /\ stuck' = (IF FMode = "persist" /\ opn + 1 = FK THEN stuck \cup {<<"R", "cidref">>} ELSE stuck)
      /\ first' = (IF opn + 1 = FK /\ FMode # "none"
                     THEN [fam |-> "R", dest |-> "cidref", nth |-> cnt[<<"R", "cidref">>] + 1] ELSE first)
      /\ cnt' = [cnt EXCEPT ![<<"R", "cidref">>] = cnt[<<"R", "cidref">>] + 1]
      /\ opn' = opn + 1
      /\ pc' = [pc EXCEPT !["t"] = "b2"]
      /\ UNCHANGED << StartHasList, ObjExists, FMode, FK, pref, lst, marks, 
                      made, exc, uexc, res, cls, refLocked, cidLocked, stack, 
                      kind, dst, src, todo >>

b2 == /\ pc["t"] = "b2"
      /\ IF failed
            THEN /\ exc' = "io"
                 /\ pc' = [pc EXCEPT !["t"] = "handler"]
            ELSE /\ pc' = [pc EXCEPT !["t"] = "b3"]
                 /\ exc' = exc
      /\ UNCHANGED << StartHasList, ObjExists, FMode, FK, pref, lst, marks, 
                      opn, stuck, failed, first, cnt, made, uexc, res, cls, 
                      refLocked, cidLocked, stack, kind, dst, src, todo >>

b3 == /\ pc["t"] = "b3"
      /\ failed' = Fails(opn + 1, "R", "cidref")
      /\ stuck' = (IF FMode = "persist" /\ opn + 1 = FK THEN stuck \cup {<<"R", "cidref">>} ELSE stuck)
      /\ first' = (IF opn + 1 = FK /\ FMode # "none"
                     THEN [fam |-> "R", dest |-> "cidref", nth |-> cnt[<<"R", "cidref">>] + 1] ELSE first)
      /\ cnt' = [cnt EXCEPT ![<<"R", "cidref">>] = cnt[<<"R", "cidref">>] + 1]
      /\ opn' = opn + 1
      /\ pc' = [pc EXCEPT !["t"] = "b4"]
      /\ UNCHANGED << StartHasList, ObjExists, FMode, FK, pref, lst, marks, 
                      made, exc, uexc, res, cls, refLocked, cidLocked, stack, 
                      kind, dst, src, todo >>

b4 == /\ pc["t"] = "b4"
      /\ IF failed
            THEN /\ exc' = "io"
                 /\ pc' = [pc EXCEPT !["t"] = "handler"]
            ELSE /\ pc' = [pc EXCEPT !["t"] = "b5"]
                 /\ exc' = exc
      /\ UNCHANGED << StartHasList, ObjExists, FMode, FK, pref, lst, marks, 
                      opn, stuck, failed, first, cnt, made, uexc, res, cls, 
                      refLocked, cidLocked, stack, kind, dst, src, todo >>

b5 == /\ pc["t"] = "b5"
      /\ failed' = Fails(opn + 1, "W", "cidref")
      /\ stuck' = (IF FMode = "persist" /\ opn + 1 = FK THEN stuck \cup {<<"W", "cidref">>} ELSE stuck)
      /\ first' = (IF opn + 1 = FK /\ FMode # "none"
                     THEN [fam |-> "W", dest |-> "cidref", nth |-> cnt[<<"W", "cidref">>] + 1] ELSE first)
      /\ cnt' = [cnt EXCEPT ![<<"W", "cidref">>] = cnt[<<"W", "cidref">>] + 1]
      /\ opn' = opn + 1
      /\ pc' = [pc EXCEPT !["t"] = "b6"]
      /\ UNCHANGED << StartHasList, ObjExists, FMode, FK, pref, lst, marks, 
                      made, exc, uexc, res, cls, refLocked, cidLocked, stack, 
                      kind, dst, src, todo >>

b6 == /\ pc["t"] = "b6"
      /\ IF failed
            THEN /\ exc' = "io"
                 /\ pc' = [pc EXCEPT !["t"] = "handler"]
            ELSE /\ pc' = [pc EXCEPT !["t"] = "b7"]
                 /\ exc' = exc
      /\ UNCHANGED << StartHasList, ObjExists, FMode, FK, pref, lst, marks, 
                      opn, stuck, failed, first, cnt, made, uexc, res, cls, 
                      refLocked, cidLocked, stack, kind, dst, src, todo >>

b7 == /\ pc["t"] = "b7"
      /\ failed' = Fails(opn + 1, "flock", "cidref")
      /\ stuck' = (IF FMode = "persist" /\ opn + 1 = FK THEN stuck \cup {<<"flock", "cidref">>} ELSE stuck)
      /\ first' = (IF opn + 1 = FK /\ FMode # "none"
                     THEN [fam |-> "flock", dest |-> "cidref", nth |-> cnt[<<"flock", "cidref">>] + 1] ELSE first)
      /\ cnt' = [cnt EXCEPT ![<<"flock", "cidref">>] = cnt[<<"flock", "cidref">>] + 1]
      /\ opn' = opn + 1
      /\ pc' = [pc EXCEPT !["t"] = "b8"]
      /\ UNCHANGED << StartHasList, ObjExists, FMode, FK, pref, lst, marks, 
                      made, exc, uexc, res, cls, refLocked, cidLocked, stack, 
                      kind, dst, src, todo >>

b8 == /\ pc["t"] = "b8"
      /\ IF failed
            THEN /\ exc' = "io"
                 /\ pc' = [pc EXCEPT !["t"] = "handler"]
            ELSE /\ pc' = [pc EXCEPT !["t"] = "b9"]
                 /\ exc' = exc
      /\ UNCHANGED << StartHasList, ObjExists, FMode, FK, pref, lst, marks, 
                      opn, stuck, failed, first, cnt, made, uexc, res, cls, 
                      refLocked, cidLocked, stack, kind, dst, src, todo >>

b9 == /\ pc["t"] = "b9"
      /\ failed' = Fails(opn + 1, "W", "cidref")
      /\ stuck' = (IF FMode = "persist" /\ opn + 1 = FK THEN stuck \cup {<<"W", "cidref">>} ELSE stuck)
      /\ first' = (IF opn + 1 = FK /\ FMode # "none"
                     THEN [fam |-> "W", dest |-> "cidref", nth |-> cnt[<<"W", "cidref">>] + 1] ELSE first)
      /\ cnt' = [cnt EXCEPT ![<<"W", "cidref">>] = cnt[<<"W", "cidref">>] + 1]
      /\ opn' = opn + 1
      /\ pc' = [pc EXCEPT !["t"] = "b10"]
      /\ UNCHANGED << StartHasList, ObjExists, FMode, FK, pref, lst, marks, 
                      made, exc, uexc, res, cls, refLocked, cidLocked, stack, 
                      kind, dst, src, todo >>

b10 == /\ pc["t"] = "b10"
       /\ IF failed
             THEN /\ exc' = "io"
                  /\ pc' = [pc EXCEPT !["t"] = "handler"]
             ELSE /\ pc' = [pc EXCEPT !["t"] = "b11"]
                  /\ exc' = exc
       /\ UNCHANGED << StartHasList, ObjExists, FMode, FK, pref, lst, marks, 
                       opn, stuck, failed, first, cnt, made, uexc, res, cls, 
                       refLocked, cidLocked, stack, kind, dst, src, todo >>

b11 == /\ pc["t"] = "b11"
       /\ lst' = [has |-> TRUE, pids |-> Append(lst.pids, P)]
       /\ pc' = [pc EXCEPT !["t"] = "v1"]
       /\ UNCHANGED << StartHasList, ObjExists, FMode, FK, pref, marks, opn, 
                       stuck, failed, first, cnt, made, exc, uexc, res, cls, 
                       refLocked, cidLocked, stack, kind, dst, src, todo >>

a1 == /\ pc["t"] = "a1"
      /\ /\ kind' = [kind EXCEPT !["t"] = "cid"]
         /\ stack' = [stack EXCEPT !["t"] = << [ procedure |->  "move",
                                                 pc        |->  "a2",
                                                 dst       |->  dst["t"],
                                                 src       |->  src["t"],
                                                 kind      |->  kind["t"] ] >>
                                             \o stack["t"]]
      /\ dst' = [dst EXCEPT !["t"] = "-"]
      /\ src' = [src EXCEPT !["t"] = "-"]
      /\ pc' = [pc EXCEPT !["t"] = "mv0"]
      /\ UNCHANGED << StartHasList, ObjExists, FMode, FK, pref, lst, marks, 
                      opn, stuck, failed, first, cnt, made, exc, uexc, res, 
                      cls, refLocked, cidLocked, todo >>

a2 == /\ pc["t"] = "a2"
      /\ IF exc # "-"
            THEN /\ pc' = [pc EXCEPT !["t"] = "handler"]
            ELSE /\ pc' = [pc EXCEPT !["t"] = "v1"]
      /\ UNCHANGED << StartHasList, ObjExists, FMode, FK, pref, lst, marks, 
                      opn, stuck, failed, first, cnt, made, exc, uexc, res, 
                      cls, refLocked, cidLocked, stack, kind, dst, src, todo >>

v1 == /\ pc["t"] = "v1"
      /\ failed' = Fails(opn + 1, "R", "pidref")
      /\ stuck' = (IF FMode = "persist" /\ opn + 1 = FK THEN stuck \cup {<<"R", "pidref">>} ELSE stuck)
      /\ first' = (IF opn + 1 = FK /\ FMode # "none"
                     THEN [fam |-> "R", dest |-> "pidref", nth |-> cnt[<<"R", "pidref">>] + 1] ELSE first)
      /\ cnt' = [cnt EXCEPT ![<<"R", "pidref">>] = cnt[<<"R", "pidref">>] + 1]
      /\ opn' = opn + 1
      /\ pc' = [pc EXCEPT !["t"] = "v2"]
      /\ UNCHANGED << StartHasList, ObjExists, FMode, FK, pref, lst, marks, 
                      made, exc, uexc, res, cls, refLocked, cidLocked, stack, 
                      kind, dst, src, todo >>

v2 == /\ pc["t"] = "v2"
      /\ IF failed
            THEN /\ exc' = "io"
                 /\ pc' = [pc EXCEPT !["t"] = "handler"]
            ELSE /\ pc' = [pc EXCEPT !["t"] = "v3"]
                 /\ exc' = exc
      /\ UNCHANGED << StartHasList, ObjExists, FMode, FK, pref, lst, marks, 
                      opn, stuck, failed, first, cnt, made, uexc, res, cls, 
                      refLocked, cidLocked, stack, kind, dst, src, todo >>

v3 == /\ pc["t"] = "v3"
      /\ failed' = Fails(opn + 1, "R", "cidref")
      /\ stuck' = (IF FMode = "persist" /\ opn + 1 = FK THEN stuck \cup {<<"R", "cidref">>} ELSE stuck)
      /\ first' = (IF opn + 1 = FK /\ FMode # "none"
                     THEN [fam |-> "R", dest |-> "cidref", nth |-> cnt[<<"R", "cidref">>] + 1] ELSE first)
      /\ cnt' = [cnt EXCEPT ![<<"R", "cidref">>] = cnt[<<"R", "cidref">>] + 1]
      /\ opn' = opn + 1
      /\ pc' = [pc EXCEPT !["t"] = "v4"]
      /\ UNCHANGED << StartHasList, ObjExists, FMode, FK, pref, lst, marks, 
                      made, exc, uexc, res, cls, refLocked, cidLocked, stack, 
                      kind, dst, src, todo >>

v4 == /\ pc["t"] = "v4"
      /\ IF failed
            THEN /\ exc' = "io"
                 /\ pc' = [pc EXCEPT !["t"] = "handler"]
            ELSE /\ pc' = [pc EXCEPT !["t"] = "v5"]
                 /\ exc' = exc
      /\ UNCHANGED << StartHasList, ObjExists, FMode, FK, pref, lst, marks, 
                      opn, stuck, failed, first, cnt, made, uexc, res, cls, 
                      refLocked, cidLocked, stack, kind, dst, src, todo >>

v5 == /\ pc["t"] = "v5"
      /\ res' = "ok"
      /\ pc' = [pc EXCEPT !["t"] = "fin"]
      /\ UNCHANGED << StartHasList, ObjExists, FMode, FK, pref, lst, marks, 
                      opn, stuck, failed, first, cnt, made, exc, uexc, cls, 
                      refLocked, cidLocked, stack, kind, dst, src, todo >>

handler == /\ pc["t"] = "handler"
           /\ IF made
                 THEN /\ stack' = [stack EXCEPT !["t"] = << [ procedure |->  "untag",
                                                              pc        |->  "h2" ] >>
                                                          \o stack["t"]]
                      /\ pc' = [pc EXCEPT !["t"] = "ut1"]
                 ELSE /\ pc' = [pc EXCEPT !["t"] = "h5"]
                      /\ stack' = stack
           /\ UNCHANGED << StartHasList, ObjExists, FMode, FK, pref, lst, 
                           marks, opn, stuck, failed, first, cnt, made, exc, 
                           uexc, res, cls, refLocked, cidLocked, kind, dst, 
                           src, todo >>

h2 == /\ pc["t"] = "h2"
      /\ IF uexc # "-"
            THEN /\ /\ kind' = [kind EXCEPT !["t"] = "pdel"]
                    /\ stack' = [stack EXCEPT !["t"] = << [ procedure |->  "move",
                                                            pc        |->  "h3",
                                                            dst       |->  dst["t"],
                                                            src       |->  src["t"],
                                                            kind      |->  kind["t"] ] >>
                                                        \o stack["t"]]
                 /\ dst' = [dst EXCEPT !["t"] = "-"]
                 /\ src' = [src EXCEPT !["t"] = "-"]
                 /\ pc' = [pc EXCEPT !["t"] = "mv0"]
            ELSE /\ pc' = [pc EXCEPT !["t"] = "h5"]
                 /\ UNCHANGED << stack, kind, dst, src >>
      /\ UNCHANGED << StartHasList, ObjExists, FMode, FK, pref, lst, marks, 
                      opn, stuck, failed, first, cnt, made, exc, uexc, res, 
                      cls, refLocked, cidLocked, todo >>

h3 == /\ pc["t"] = "h3"
      /\ exc' = "-"
      /\ IF lst.has
            THEN /\ stack' = [stack EXCEPT !["t"] = << [ procedure |->  "rmfromlist",
                                                         pc        |->  "h4" ] >>
                                                     \o stack["t"]]
                 /\ pc' = [pc EXCEPT !["t"] = "rl1"]
            ELSE /\ pc' = [pc EXCEPT !["t"] = "h4"]
                 /\ stack' = stack
      /\ UNCHANGED << StartHasList, ObjExists, FMode, FK, pref, lst, marks, 
                      opn, stuck, failed, first, cnt, made, uexc, res, cls, 
                      refLocked, cidLocked, kind, dst, src, todo >>

h4 == /\ pc["t"] = "h4"
      /\ stack' = [stack EXCEPT !["t"] = << [ procedure |->  "delmarked",
                                              pc        |->  "h5",
                                              todo      |->  todo["t"] ] >>
                                          \o stack["t"]]
      /\ todo' = [todo EXCEPT !["t"] = {}]
      /\ pc' = [pc EXCEPT !["t"] = "dk1"]
      /\ UNCHANGED << StartHasList, ObjExists, FMode, FK, pref, lst, marks, 
                      opn, stuck, failed, first, cnt, made, exc, uexc, res, 
                      cls, refLocked, cidLocked, kind, dst, src >>

h5 == /\ pc["t"] = "h5"
      /\ res' = "ioerror"
      /\ pc' = [pc EXCEPT !["t"] = "fin"]
      /\ UNCHANGED << StartHasList, ObjExists, FMode, FK, pref, lst, marks, 
                      opn, stuck, failed, first, cnt, made, exc, uexc, cls, 
                      refLocked, cidLocked, stack, kind, dst, src, todo >>

fin == /\ pc["t"] = "fin"
       /\ cidLocked' = FALSE
       /\ refLocked' = FALSE
       /\ pc' = [pc EXCEPT !["t"] = "Done"]
       /\ UNCHANGED << StartHasList, ObjExists, FMode, FK, pref, lst, marks, 
                       opn, stuck, failed, first, cnt, made, exc, uexc, res, 
                       cls, stack, kind, dst, src, todo >>

tagger == t0 \/ t1 \/ t2 \/ t3 \/ t4 \/ t5 \/ b1 \/ b2 \/ b3 \/ b4 \/ b5
             \/ b6 \/ b7 \/ b8 \/ b9 \/ b10 \/ b11 \/ a1 \/ a2 \/ v1 \/ v2
             \/ v3 \/ v4 \/ v5 \/ handler \/ h2 \/ h3 \/ h4 \/ h5 \/ fin

(* Allow infinite stuttering to prevent deadlock on termination. *)
Terminating == /\ \A self \in ProcSet: pc[self] = "Done"
               /\ UNCHANGED vars

Next == tagger
           \/ (\E self \in ProcSet:  \/ move(self) \/ rmfromlist(self)
                                     \/ delmarked(self) \/ untag(self))
           \/ Terminating

Spec == Init /\ [][Next]_vars

Termination == <>(\A self \in ProcSet: pc[self] = "Done")

\* END TRANSLATION

Done == pc["t"] = "Done"
Outcome == [haslist |-> StartHasList, obj |-> ObjExists, mode |-> FMode, fam |-> first.fam, dest |-> first.dest, nth |-> first.nth,
            res |-> res, pref |-> pref, has |-> lst.has, pids |-> lst.pids, marks |-> marks]

\* C13: success only with the whole effect
RaisesUnlessDone == (Done /\ res = "ok") =>
   /\ pref = "c" /\ lst.has /\ Count(P, lst.pids) = 1 /\ marks = {}
\* C13: after a failure the pid is unbound ...
NoHalfBound == (Done /\ res # "ok") => pref = None /\ ~InSeq(P, lst.pids)
\* ... a list created by this call is gone again ...
NoEmptyList == (Done /\ res # "ok") => (lst.has => lst.pids # <<>>)
\* ... and the other pid's entry is untouched
OthersUntouched == Done => (IF StartHasList THEN lst.has /\ Count(Q, lst.pids) = 1 ELSE ~InSeq(Q, lst.pids))
\* a failure did fail (no fault-free path ends in an error)
ErrorOnlyIfFault == (Done /\ res # "ok") => first.nth > 0
\* C08
Unlocked == Done => ~refLocked /\ ~cidLocked
\* FMode = "none" is explored once (FK = 1); a site index beyond the run's sites is no fault
Relevant == (FMode = "none" => FK = 1)
Dump == (Done /\ Relevant) => PrintT("TXN " \o ToJson(Outcome))
=============================================================================
