"""C15: run a fixed script on real stores of every (depth, width, algorithm), list every file,
and let TLC (spec/TraceLayout.tla + Layout.tla) check location and content of each."""
import hashlib
import multiprocessing
import os
import random
import shutil

import yaml

from . import tlc
from .driver import load_hashstore
from .ids import ALGO_HASHLIB

NS = "https://ns.dataone.org/service/types/v2.0#SystemMetadata"
DIGEST_LEN = {"MD5": 32, "SHA-1": 40, "SHA-256": 64, "SHA-384": 96, "SHA-512": 128}


def configs():
    out = []
    for algo in ALGO_HASHLIB:
        for d in range(1, 7):
            for w in range(1, 5):
                if d * w <= 24:          # three quarters of the shortest digest (md5: 32)
                    out.append((algo, d, w))
    return out


def idents(rnd, k, adversarial):
    base = ["doi:10.18739/A2901ZH2M", "urn:uuid:1b35d0a5-b17a-423b-a2ed-de2b18dc367a",
            "jtao.1700.1", "jtao.1700.1.dou"]
    if adversarial:
        base += ["../../etc/passwd", "pid/with/slashes", "éè-中文-\U0001f600",
                 "x" * 4096, "-rf", ".hidden", "a%2Fb", "UPPER/lower"]
    rnd.shuffle(base)
    return base[:k]


def chars(s):
    return list(s)


def _worker(args):
    cfgs, seed, base, adversarial = args
    fhs, _ = load_hashstore()
    rnd = random.Random(seed)
    os.makedirs(base, exist_ok=True)
    pids = idents(rnd, 4, adversarial)          # the SAME identifiers in every configuration
    fmts = [None, "http://ns.example/fmt2"]
    if adversarial:
        # format ids are hashed as given: padded spellings are different documents
        fmts += [" http://ns.example/fmt2", "http://ns.example/fmt2\n", "eml://ecoinformatics.org/eml 2.0.1"]
    cx = os.path.join(base, "x")
    cy = os.path.join(base, "y")
    with open(cx, "wb") as f:
        f.write(b"layout content X\n" * 7)
    with open(cy, "wb") as f:
        f.write(b"layout content Y")
    md = os.path.join(base, "m")
    with open(md, "wb") as f:
        f.write(b"<m/>")
    recs = []
    for ci, (algo, d, w) in enumerate(cfgs):
        root = os.path.join(base, "s%d" % ci)
        st = fhs.FileHashStore({"store_path": root, "store_depth": d, "store_width": w,
                                "store_algorithm": algo, "store_metadata_namespace": NS})
        h = ALGO_HASHLIB[algo]
        H = lambda s: hashlib.new(h, s.encode("utf-8")).hexdigest()  # noqa
        p1, p2, p3, p4 = pids
        errors = []

        def step(fn, *a):
            try:
                return fn(*a)
            except Exception as e:  # noqa  (a failing valid call shows up as missing files)
                errors.append(type(e).__name__)
                return None
        omx = step(st.store_object, p1, cx)
        step(st.store_object, p2, cx)
        step(st.store_object, p3, cx)
        step(st.delete_object, p2)
        step(st.store_object, p4, cx)
        omy = step(st.store_object, None, cy)
        step(st.store_metadata, p1, md)
        for f_ in fmts[1:]:
            step(st.store_metadata, p1, md, f_)
        cidx = hashlib.new(h, open(cx, "rb").read()).hexdigest()
        cidy = hashlib.new(h, open(cy, "rb").read()).hexdigest()
        live = [p1, p3, p4]
        common = {"depth": d, "width": w, "algo": algo, "cfg": ci}
        expect = {"obj": 2, "pidref": 3, "cidref": 1, "doc": len(fmts), "yaml": 1}
        found = {"obj": 0, "pidref": 0, "cidref": 0, "doc": 0, "yaml": 0}
        hp = {H(p): p for p in live}
        hdoc = {(H(p1), H(p1 + (f or NS))): f for f in fmts}
        for dirpath, dirnames, filenames in os.walk(root):
            for fn in filenames:
                rel = os.path.relpath(os.path.join(dirpath, fn), root)
                parts = rel.split(os.sep)
                with open(os.path.join(dirpath, fn), "rb") as f:
                    data = f.read()
                rec = None
                if parts == ["hashstore.yaml"]:
                    y = yaml.safe_load(data)
                    rec = dict(common, kind="yaml", keys=sorted(y), depthv=y.get("store_depth"),
                               widthv=y.get("store_width"), algov=y.get("store_algorithm"),
                               nsv=y.get("store_metadata_namespace"), ns=NS,
                               algolist=y.get("store_default_algo_list"))
                elif parts[0] == "objects" and parts[1] != "tmp":
                    name = "".join(parts[1:])
                    if name in (cidx, cidy):
                        rec = dict(common, kind="obj", top="objects",
                                   tokens=[chars(t) for t in parts[1:]], cid=chars(name))
                elif parts[0] == "refs" and parts[1] == "pids":
                    name = "".join(parts[2:])
                    if name in hp:
                        rec = dict(common, kind="pidref", top="refs/pids",
                                   tokens=[chars(t) for t in parts[2:]], hpid=chars(name),
                                   cid=chars(cidx), content=chars(data.decode("utf-8", "replace")))
                elif parts[0] == "refs" and parts[1] == "cids":
                    name = "".join(parts[2:])
                    if name == cidx:
                        rec = dict(common, kind="cidref", top="refs/cids",
                                   tokens=[chars(t) for t in parts[2:]], cid=chars(name),
                                   pids=[chars(p) for p in live],
                                   content=chars(data.decode("utf-8", "replace")))
                elif parts[0] == "metadata" and parts[1] != "tmp":
                    key = ("".join(parts[1:-1]), parts[-1])
                    if key in hdoc:
                        rec = dict(common, kind="doc", top="metadata",
                                   tokens=[chars(t) for t in parts[1:]], hpid=chars(key[0]),
                                   hdoc=chars(key[1]))
                if rec is None:
                    rec = dict(common, kind="extra", rel=rel)
                else:
                    found[rec["kind"]] += 1
                recs.append(rec)
        recs.append(dict(common, kind="summary", found=found, expected=expect,
                         script_errors=errors,
                         cid_reported_true=bool(omx and omy and omx.cid == cidx and omy.cid == cidy)))
        shutil.rmtree(root)
    shutil.rmtree(base, ignore_errors=True)
    return recs


def run(tier, seed):
    cfgs = configs()
    base = os.path.join(tlc.scratch_root(), "lay.%d" % os.getpid())
    n = 8
    reps = 1 if tier == "quick" else 6
    jobs = []
    for r in range(reps):
        order = list(cfgs)
        random.Random(seed + r).shuffle(order)
        for i in range(n):
            jobs.append((order[i::n], seed + 31 * r + i, os.path.join(base, "w%d_%d" % (r, i)),
                         r > 0 or i % 2 == 1))
    with multiprocessing.get_context("fork").Pool(16) as pool:
        res = pool.map(_worker, jobs)
    shutil.rmtree(base, ignore_errors=True)
    return [x for chunk in res for x in chunk], len(cfgs)
