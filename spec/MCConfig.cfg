SPECIFICATION Spec
CHECK_DEADLOCK FALSE
INVARIANT Reflexive
INVARIANT Pinned
