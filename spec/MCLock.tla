------------------------------- MODULE MCLock -------------------------------
EXTENDS LockProtocol
\* two identifiers, two claimers each
Want4 == [t \in {"t1", "t2", "t3", "t4"} |-> IF t \in {"t1", "t2"} THEN "x" ELSE "y"]
\* three claimers of x, two of y
Want5 == [t \in {"t1", "t2", "t3", "t4", "t5"} |-> IF t \in {"t1", "t2", "t3"} THEN "x" ELSE "y"]
Want6 == [t \in {"t1", "t2", "t3", "t4", "t5", "t6"} |->
            IF t \in {"t1", "t2"} THEN "x" ELSE IF t \in {"t3", "t4"} THEN "y" ELSE "z"]
=============================================================================
