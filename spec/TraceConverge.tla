---------------------------- MODULE TraceConverge ----------------------------
(***************************************************************************)
(* code -> spec for C19: both storing procedures were run by the harness   *)
(* on two copies of the same REAL store, from every reachable contract     *)
(* state; TLC compares the two observed outcomes with MCContract!Converge  *)
(* and each of them with the contract (drift).                             *)
(*   record : [pre, pid, c, val, one : [res, st], two : [res, st, stored]] *)
(***************************************************************************)
EXTENDS HashStoreAPI, Converge, Json, IOUtils, TLCExt

Obs == JsonDeserialize(IOEnv.TRACE_FILE)
N   == Len(Obs.records)
VARIABLE k
TInit == k = 0
TNext == k = 0 /\ k' \in 1..N
TSpec == TInit /\ [][TNext]_k
R == Obs.records[k]

Log(tag, name) == PrintT(tag \o " " \o name \o " " \o ToString(k))
I_C19 == k > 0 => (Converge(R.pre, R.pid, R.c, R.val, R.one, R.two) \/ Log("VIOL", "C19_Converge"))
SameAs(obs, mod) == obs.st = mod.st /\ obs.res.cls = mod.res.cls
I_Conforms == k > 0 =>
  (\/ ~WellFormed(R.pre)
   \/ (SameAs(R.one, ProcOne(R.pre, R.pid, R.c, R.val)) /\ SameAs(R.two, ProcTwo(R.pre, R.pid, R.c, R.val)))
   \/ Log("DRIFT", "Apply"))
AllJudged == PrintT("JUDGED " \o ToString(TLCGet("stats").distinct - 1) \o " OF " \o ToString(N))
=============================================================================
