------------------------------- MODULE HSTypes -------------------------------
(***************************************************************************)
(* Vocabulary shared by every layer of the HashStore specification.        *)
(*                                                                         *)
(* All identifiers are STRINGS (not model values) so that the very same    *)
(* values travel through JSON between TLC and the Python harness.          *)
(*                                                                         *)
(* Abstract store state  (the projection abs() of a real store directory): *)
(*   obj  : [Cid -> {"absent","ok","bad"}]  file at the permanent object   *)
(*          address of cid; "ok" iff its digest is its name                *)
(*   pref : [Pid -> Cid \cup {None,Junk}]   content of the pid reference   *)
(*   cref : [Cid -> [has : BOOLEAN, pids : Seq(Pid \cup {Junk})]]          *)
(*          lines of the cid reference file, in file order                 *)
(*   doc  : [Pid -> [Fmt -> Ver \cup {None,Junk}]]  metadata documents     *)
(*   junk : Nat   number of files that are none of the above: staged tmp   *)
(*          files, *_delete markers, anything unclassifiable               *)
(***************************************************************************)
EXTENDS Naturals, Sequences, FiniteSets, TLC

CONSTANTS Pid,        \* persistent identifiers (abstract names "p1", ...)
          Content,    \* contents that can be stored; the cid of content c is c
          ExtraCid,   \* well-formed cids whose content is never stored
          Fmt,        \* explicit metadata formats; DefaultNs \in Fmt
          Ver         \* metadata document versions

None      == "none"
Junk      == "junk"
NoFmt     == "nofmt"     \* format argument omitted by the caller
DefaultNs == "fD"        \* the store's configured default namespace
Cid       == Content \cup ExtraCid

InSeq(x, s)   == \E k \in 1..Len(s) : s[k] = x
SeqRange(s)   == {s[k] : k \in 1..Len(s)}
Without(s, x) == SelectSeq(s, LAMBDA y : y # x)
CountIn(x, s) == Cardinality({k \in 1..Len(s) : s[k] = x})
EffFmt(f)     == IF f = NoFmt THEN DefaultNs ELSE f

NoList  == [has |-> FALSE, pids |-> <<>>]
List(q) == [has |-> TRUE,  pids |-> q]

EmptyStore ==
  [obj  |-> [c \in Cid |-> "absent"],
   pref |-> [p \in Pid |-> None],
   cref |-> [c \in Cid |-> NoList],
   doc  |-> [p \in Pid |-> [f \in Fmt |-> None]],
   junk |-> 0]

NoDocs == [f \in Fmt |-> None]

\* Result records.  cls is a CLASS of outcomes, exactly as coarse as the
\* property text: "ok", "exists" (HashStoreRefsAlreadyExists or
\* PidRefsAlreadyExistsError), "badsize", "badsum", "nopid", "inconsistent"
\* (orphan pid ref / pid missing from list / object missing), "notfound"
\* (metadata), "badvalue" (ValueError), "badtype" (TypeError), "unsupported", "inprogress", "ioerror", other.
\* cid / data carry the payload in abstract form, "-" when there is none;
\* `truth` is FALSE iff the harness found a byte-level falsehood in the
\* payload (wrong digest value, wrong size, wrong key set, wrong bytes).
Res(cls, cid, data) == [cls |-> cls, cid |-> cid, data |-> data, truth |-> TRUE]
ROk        == Res("ok", "-", "-")
RCls(cls)  == Res(cls, "-", "-")

\* Call records: uniform shape, "-" for unused fields.
Call(op, pid, c, val, fmt, ver) ==
  [op |-> op, pid |-> pid, c |-> c, val |-> val, fmt |-> fmt, ver |-> ver]
=============================================================================
