#!/usr/bin/env python3
"""Generate MANIFEST.json from the table below (kept in one place so it stays valid)."""
import json

CHECKS = {
 "C03": ("model_checking", "contract model checking (TLC, all histories to fixpoint) + replay of every reachable state x call into the real code, each observed step judged by TLC (TraceProps) against HSProps clauses and Apply; repeated with case-variant and file-path pids; C03 clauses also judged on every concurrent outcome explored for C07 (TraceLin I_C03_Conc) and on every fault record (TraceFault I_C03_Fault)",
         "§5 C03"),
 "C04": ("model_checking", "same engine as C03; clauses C04_ReferencedKept / C04_LastDeleteRemoves; plus C04_ConcReferencedKept on every concurrent outcome and C04_FaultReferencedKept on every fault record", "§5 C04"),
 "C05": ("model_checking", "same engine as C03; clauses C05_RefsExact / C05_NoResidue / C05_DeleteAlwaysCleans against the history ghost; plus C05_ConcRefsExact on every concurrent outcome", "§5 C05"),
 "C11": ("model_checking", "contract model checking over metadata alphabets + replay of every state x call; clauses C11_DocsExact / C11_Retrieve / C11_Isolation; plus C11_Conc* on every concurrent outcome explored for C12 and C11_Fault* on every fault record", "§5 C11"),
 "C17": ("model_checking", "every reachable contract state x invalid-argument template and read-only call, byte-for-byte tree comparison, judged by TLC clause C17_*", "§5 C17"),
 "C07": ("model_checking", "every interleaving (2 threads, state-cached exhaustive DFS under a cooperative scheduler at file-system-call and lock-operation granularity) of each related call pair from 5 start states on the REAL code; each distinct terminal outcome judged by TLC (TraceLin): some permutation of the calls through the contract Apply must reproduce results and final state; 3-thread scenarios preemption-bounded on the code and exhaustive on the implementation-shaped PlusCal model (impl/MCImpl), recorded executions validated step by step (impl/TraceSteps)", "§5 C07"),
 "C08": ("model_checking", "deadlock detection (no runnable thread while a call is unfinished), lock lists empty at quiescence and follow-up calls on every involved identifier must complete, over every execution explored for C07 and C12; judged by TLC (TraceLin I_NoDeadlock / I_NothingLocked)", "§5 C08"),
 "C12": ("model_checking", "every interleaving of metadata call pairs on one pid (store/retrieve/delete(format)/delete(all)/delete_object) on the real code; outcomes judged linearizable against Apply by TLC (TraceLin)", "§5 C12"),
 "C09": ("model_checking", "C09 clauses evaluated by TLC on (a) every distinct abstract store state seen between two file-system operations in every interleaving explored for C07/C12 (what a concurrent reader can see), (b) the directory left by process death before each file-system operation of each call, (c) the state after each injected fault", "§5 C09"),
 "C10": ("fault_enumeration", "process death (fork + os._exit) before each intercepted file-system operation of each call x start state on the real code; post-crash abstraction, reopen with a fresh instance and recovery script; clauses C10_OthersIntact / C10_NoWrongBytes / C10_Unwedge judged by TLC (TraceFault)", "§5 C10"),
 "C13": ("fault_enumeration", "one injected OSError at each mutating/opening file-system operation of each call x start state x {once, persistent-for-destination} on the real code; clauses C13_* judged by TLC (TraceFault) with the contract Apply as the meaning of 'whole effect'; TagTxn.tla / DeleteTxn.tla (tagging and deleting as transactions under one failure) model-checked and compared with the code per fault site", "§5 C13"),
 "C01": ("model_checking", "contract clauses C01_* over all histories (TLC) + replay of every reachable state x call and TLC-simulated long histories into the real code judged by TraceProps; plus the product sizes (around both read-buffer sizes) x 8 kinds of data argument x 5 store algorithms judged by TLC (TraceTables I_C01_Sweep); identifier passes (case variants, file-path pids); C01 clauses on concurrent outcomes (incl. readers racing calls on other pids) and fault records", "§5 C01"),
 "C02": ("model_checking", "Algorithms.tla (independent transcription of the spelling rule, Keys(call)) checked by TLC; TLC enumerates every spelling of the 12 algorithms + unsupported names; the harness drives ONE store instance through a long history of store_object / get_hex_digest calls over that product and TLC judges every record (TraceTables I_C02_*, coverage clause)", "§5 C02"),
 "C06": ("model_checking", "contract clauses C06_* over all histories + replay (good / wrong checksum / wrong size) and the product 3 prior states x 12 algorithms x spellings x {lower, upper, mixed, wrong} checksum x {correct, wrong, absent} size x {store_object, delete_if_invalid_object} on the real code, judged by TLC against VerdictValid as the property states it (also with an additional algorithm named in the call); C06_ConcVerdictKeepsReferenced on every concurrent outcome", "§5 C06"),
 "C14": ("model_checking", "Config.tla decision table; TLC explores all 5e6 (creation, reopening) pairs for its own invariants; the harness replays neighbours (quick) / all 200 creations x ~500 attempts (thorough) on real empty and populated stores and TLC judges decision, byte-for-byte refusal and data visibility (TraceConfig)", "§5 C14"),
 "C15": ("model_checking", "Layout.tla (independent implementation of the README layout); every file found in real stores of all 120 (depth, width, algorithm) configurations after a fixed script is checked by TLC for location and content; several configurations per process with the same identifiers", "§5 C15"),
 "C16": ("model_checking", "USE_MULTIPROCESSING=True: the sequential contract walk, the C07/C12 interleaving scenarios and the fault enumeration re-run through the `_mp` branches (stand-in primitives, threads play processes), judged by the same TLC trace specs; plus real forked processes with real Manager lists/locks (sampling) judged for linearizability by TraceLin", "§5 C16"),
 "C18": ("model_checking", "TLC-simulated call histories replayed under adversarial injective instantiations of pids/formats with whole-file-system interposition; every step judged by TLC (all sequential clauses + C18_Bystander + C18_Contained): the code must behave like the model in which identifiers are uninterpreted", "§5 C18"),
 "C19": ("model_checking", "Converge(one, two) is an invariant of the contract over all reachable states (TLC); both procedures run on copies of the real store from every reachable state x pid x content x validation case, compared by TLC (TraceConverge); C19_ConcReferencedUndisturbed on every concurrent outcome explored for C07", "§5 C19"),
 "C20": ("model_checking", "Client.tla enumerates every verb x option-value-class combination and the typed API call it stands for (TLC); the harness runs hashstoreclient.main() and that API call on copies of one populated store; TLC compares effect (byte-for-byte tree), refusal and printed payload (TraceClient)", "§5 C20"),
}
NOT_YET = {}

def main():
    props = [json.loads(l) for l in open("properties.jsonl")]
    checks = []
    for p in props:
        pid = p["id"]
        if pid not in CHECKS:
            continue
        level, tech, ref = CHECKS[pid]; ref = "DESIGN.md §5 " + pid
        checks.append({
            "property_id": pid,
            "quick_cmd": "./check %s --tier quick" % pid,
            "thorough_cmd": "./check %s --tier thorough" % pid,
            "evidence_file": "evidence/%s.json" % pid,
            "replay_cmd_template": "./check %s --replay {path}" % pid,
            "engine": "tlc+harness",
            "level_claimed": {"category": level, "text": tech, "design_ref": ref},
            "level_note": "trusted: TLC 1.8, hashlib, the harness abstraction function; bounded alphabets as recorded in the evidence file",
            "technique": "TLA+ spec model-checked with TLC, bound to the code by spec->code replay and TLC trace validation of observed behaviour",
        })
    na = [{"property_id": p["id"], "reason": NOT_YET.get(p["id"], "check not built yet in this round (work in progress; will be claimed when its TLA+ model and conformance harness exist)")}
          for p in props if p["id"] not in CHECKS]
    m = {"version": 1,
         "setup_cmd": "./setup.sh",
         "hooks": {"guard": "HASHSTORE_VERIF", "enable": "no repository hooks are used; the harness interposes at the OS/threading boundary from /verif",
                   "baseline_off_cmd": "cd /repo && /venv/bin/python -m pytest -ra -q -p no:cacheprovider --timeout=900",
                   "source_commits": [], "add_only": True},
         "engines": [{"name": "tlc+harness", "path": "/verif/check", "serves_properties": sorted(CHECKS),
                      "kind_free_text": "TLA+ specifications under spec/ checked by TLC; Python harness under harness/ replays spec behaviours into FileHashStore and feeds observed traces back to TLC"}],
         "checks": checks,
         "not_applicable": na,
         "notes": "See DESIGN.md. Fixes of genuine defects are recorded in known_findings.json."}
    json.dump(m, open("MANIFEST.json", "w"), indent=1)

main()
