SPECIFICATION Spec
CHECK_DEADLOCK FALSE
POSTCONDITION AllJudged
INVARIANT I_C14_AcceptIff
INVARIANT I_C14_Refusal
INVARIANT I_C14_Reopen
INVARIANT I_C14_Create
