"""abs(): project a real store directory onto the specification's abstract state.

Layout-agnostic on purpose (layout is checked separately, C15): a file is recognised by
the kind directory it lives in and by the CONCATENATION of the path tokens below it,
looked up in reverse tables built with hashlib from the identifiers the harness chose.
Byte-level truth is established here: an object is "ok" iff its bytes are the content
whose digest is its name; a document is version v iff its bytes equal v's bytes.
Anything that cannot be named counts as junk (staged tmp files, *_delete markers, ...).
"""
import hashlib
import os

IGNORED_TOP = {"hashstore.yaml", "python_client.log"}


def _read(path):
    try:
        with open(path, "rb") as f:
            return f.read()
    except OSError:
        return None


def abstract(root, inst, detail=False):
    obj = {c: "absent" for c in inst.cid}
    pref = {p: "none" for p in inst.pid}
    cref = {c: {"has": False, "pids": []} for c in inst.cid}
    doc = {p: {f: "none" for f in inst.fmt} for p in inst.pid}
    junk = []
    root = str(root)
    for dirpath, dirnames, filenames in os.walk(root):
        rel = os.path.relpath(dirpath, root)
        parts = [] if rel == "." else rel.split(os.sep)
        for fn in filenames:
            full = os.path.join(dirpath, fn)
            toks = parts + [fn]
            if len(toks) == 1 and fn in IGNORED_TOP:
                continue
            kind = toks[0]
            if kind == "objects" and len(toks) >= 2 and toks[1] != "tmp":
                name = "".join(toks[1:])
                c = inst.cid_rev.get(name)
                if c is None:
                    junk.append("/".join(toks))
                    continue
                data = _read(full)
                ok = (c in inst.content and data is not None
                      and hashlib.new(inst.h, data).hexdigest() == name
                      and data == inst.content[c])
                obj[c] = "ok" if ok else "bad"
            elif kind == "refs" and len(toks) >= 3 and toks[1] == "pids":
                name = "".join(toks[2:])
                p = inst.pidhash_rev.get(name)
                if p is None:
                    junk.append("/".join(toks))
                    continue
                data = _read(full)
                try:
                    txt = data.decode("utf-8")
                except Exception:  # noqa
                    txt = None
                pref[p] = inst.cid_rev.get(txt, "junk") if txt is not None else "junk"
            elif kind == "refs" and len(toks) >= 3 and toks[1] == "cids":
                name = "".join(toks[2:])
                c = inst.cid_rev.get(name)
                if c is None:
                    junk.append("/".join(toks))
                    continue
                data = _read(full)
                pids = []
                try:
                    txt = data.decode("utf-8")
                    lines = txt.split("\n")
                    if lines and lines[-1] == "":
                        lines = lines[:-1]        # newline-terminated last line
                    else:
                        lines = lines[:-1] + [lines[-1] + "\x00unterminated"] if lines else []
                    for ln in lines:
                        pids.append(inst.pidstr_rev.get(ln, "junk"))
                except Exception:  # noqa
                    pids = ["junk"]
                cref[c] = {"has": True, "pids": pids}
            elif kind == "metadata" and len(toks) >= 3 and toks[1] != "tmp":
                key = ("".join(toks[1:-1]), toks[-1])
                pf = inst.doc_rev.get(key)
                if pf is None:
                    junk.append("/".join(toks))
                    continue
                data = _read(full)
                v = inst.ver_rev.get(hashlib.sha256(data).hexdigest()) if data is not None else None
                doc[pf[0]][pf[1]] = v if v is not None else "junk"
            else:
                junk.append("/".join(toks))
    st = {"obj": obj, "pref": pref, "cref": cref, "doc": doc, "junk": len(junk)}
    if detail:
        return st, sorted(junk)
    return st


def snapshot(root):
    """Byte-for-byte snapshot of a tree: ({file: sha256}, {dirs})."""
    files, dirs = {}, set()
    root = str(root)
    for dirpath, dirnames, filenames in os.walk(root):
        rel = os.path.relpath(dirpath, root)
        dirs.add(rel)
        for fn in filenames:
            if rel == "." and fn == "python_client.log":
                continue
            full = os.path.join(dirpath, fn)
            d = _read(full)
            files[os.path.join(rel, fn)] = hashlib.sha256(d).hexdigest() if d is not None else "?"
    return files, dirs


def fs_diff(before, after):
    """'same' | 'dirs' (only directories differ) | 'changed'."""
    if before[0] != after[0]:
        return "changed"
    if before[1] != after[1]:
        return "dirs"
    return "same"
