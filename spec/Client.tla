-------------------------------- MODULE Client --------------------------------
(***************************************************************************)
(* C20 - the command-line client as a front end: which API call, with      *)
(* which TYPED values, each verb with each combination of its documented   *)
(* options stands for.  Option values are value CLASSES ("-" = option not  *)
(* given); the harness owns their concrete spelling.                       *)
(*   Cases     the product TLC enumerates and hands to the harness         *)
(*   ApiOf(c)  the corresponding API call                                   *)
(***************************************************************************)
EXTENDS Naturals, FiniteSets, Sequences, TLC, Json

AlgoVals   == {"-", "sha224", "SHA-384", "bogus"}
SumVals    == {"-", "good", "goodupper", "bad", "empty"}
SumAlgVals == {"-", "sha256", "SHA-256", "empty", "bogus"}
SizeVals   == {"-", "good", "bad", "zero", "negative", "nonint"}
FmtVals    == {"-", "default", "other"}
PidVals    == {"known", "unknown", "-"}
Contents   == {"ascii", "crlf", "multibyte"}

Case(verb, pid, algo, sum, sumalg, size, fmt, content) ==
  [verb |-> verb, pid |-> pid, algo |-> algo, sum |-> sum, sumalg |-> sumalg, size |-> size,
   fmt |-> fmt, content |-> content]

Cases ==
       {Case("storeobject", p, a, s, sa, z, "-", "ascii") :
            p \in {"known", "-"}, a \in AlgoVals, s \in SumVals, sa \in SumAlgVals, z \in SizeVals}
  \cup {Case("getchecksum", p, a, "-", "-", "-", "-", "ascii") :
            p \in PidVals, a \in {"-", "sha256", "SHA-256", "sha224", "bogus"}}
  \cup {Case("retrieveobject", p, "-", "-", "-", "-", "-", c) : p \in PidVals, c \in Contents}
  \cup {Case("deleteobject", p, "-", "-", "-", "-", "-", "ascii") : p \in PidVals}
  \cup {Case("storemetadata", p, "-", "-", "-", "-", f, "ascii") : p \in {"known", "-"}, f \in FmtVals}
  \cup {Case("retrievemetadata", p, "-", "-", "-", "-", f, c) :
            p \in PidVals, f \in FmtVals, c \in Contents}
  \cup {Case("deletemetadata", p, "-", "-", "-", "-", f, "ascii") : p \in PidVals, f \in FmtVals}

\* The API call a case stands for: method + typed arguments (value classes again; "-"
\* means the argument is omitted / None).  -obj_size is an INTEGER for the API; a
\* non-integer text cannot be typed, both sides must then refuse.
ApiOf(c) ==
  CASE c.verb = "storeobject" ->
         [method |-> "store_object", pid |-> c.pid, additional_algorithm |-> c.algo,
          checksum |-> c.sum, checksum_algorithm |-> c.sumalg, expected_object_size |-> c.size,
          size_type |-> IF c.size = "-" THEN "none" ELSE IF c.size = "nonint" THEN "untypable" ELSE "int"]
    [] c.verb = "getchecksum" -> [method |-> "get_hex_digest", pid |-> c.pid, algorithm |-> c.algo]
    [] c.verb = "retrieveobject" -> [method |-> "retrieve_object", pid |-> c.pid]
    [] c.verb = "deleteobject" -> [method |-> "delete_object", pid |-> c.pid]
    [] c.verb = "storemetadata" -> [method |-> "store_metadata", pid |-> c.pid, format_id |-> c.fmt]
    [] c.verb = "retrievemetadata" -> [method |-> "retrieve_metadata", pid |-> c.pid, format_id |-> c.fmt]
    [] c.verb = "deletemetadata" -> [method |-> "delete_metadata", pid |-> c.pid, format_id |-> c.fmt]

\* options the verb requires: the client refuses when they are missing
Required(c) ==
  CASE c.verb \in {"storeobject", "storemetadata"} -> c.pid # "-"
    [] c.verb = "getchecksum" -> c.pid # "-" /\ c.algo # "-"
    [] OTHER -> c.pid # "-"

VARIABLE x
Init == x = 0
Next == UNCHANGED x
Spec == Init /\ [][Next]_x
Dump == PrintT("CASES " \o ToJson({[case |-> c, api |-> ApiOf(c), required |-> Required(c)] : c \in Cases}))
=============================================================================
