"""Deterministic cooperative scheduler for real Python threads.

Managed threads are real threads, but exactly one of them (or the controller) runs at
any time.  A managed thread hands control back to the controller at every *yield point*:
before an interposed shared file-system operation and at every operation on the store's
locks / conditions (SLock, SCond below, substituted for threading.Lock / Condition and
their multiprocessing equivalents while the FileHashStore is being constructed).
A schedule is a sequence of thread ids; a run is deterministic given a schedule.
"""
import threading
import _thread

_tls = threading.local()


def current():
    return getattr(_tls, "mt", None)


class Killed(BaseException):
    """Raised inside a managed thread to unwind it when a run is abandoned."""


class MThread:
    def __init__(self, sched, tid, fn):
        self.sched, self.tid, self.fn = sched, tid, fn
        self.pending = None          # token of the step it is about to take
        self.enabled = lambda: True  # may the pending step be taken now?
        self.done = False
        self.result = None
        self.exc = None
        self.steps = 0
        self.hist = []               # own operations with their results
        self.go = threading.Event()
        self.thread = threading.Thread(target=self._run, daemon=True)

    def _run(self):
        _tls.mt = self
        self.go.wait()
        self.go.clear()
        try:
            if self.sched.killing:
                raise Killed()
            self.result = self.fn()
        except Killed:
            pass
        except BaseException as e:  # noqa
            self.exc = e
        finally:
            self.done = True
            self.pending = None
            self.sched._back()


class Scheduler:
    def __init__(self):
        self.threads = {}
        self.ctl = threading.Event()
        self.killing = False
        self.trace = []            # (tid, token) in execution order
        self.on_step = None        # callback(tid, token) after each executed step
        self.on_lock = None        # callback(kind, tid, name): acquire / release / wait / wakeup

    # ---- controller side -----------------------------------------------------
    def spawn(self, tid, fn):
        t = MThread(self, tid, fn)
        self.threads[tid] = t
        t.pending = ("start",)
        t.thread.start()
        return t

    def runnable(self):
        return [tid for tid, t in sorted(self.threads.items())
                if not t.done and t.pending is not None and t.enabled()]

    def unfinished(self):
        return [tid for tid, t in sorted(self.threads.items()) if not t.done]

    def step(self, tid):
        """Let `tid` perform its pending step and run until its next yield point."""
        t = self.threads[tid]
        tok = t.pending
        self.trace.append((tid, tok))
        t.steps += 1
        self.ctl.clear()
        t.go.set()
        self.ctl.wait()
        if self.on_step:
            self.on_step(tid, tok)
        return tok

    def kill_all(self):
        self.killing = True
        for tid, t in self.threads.items():
            guard = 0
            while not t.done and guard < 100000:
                guard += 1
                self.ctl.clear()
                t.go.set()
                self.ctl.wait()
        for t in self.threads.values():
            t.thread.join(timeout=5)

    # ---- managed-thread side -------------------------------------------------
    def _back(self):
        self.ctl.set()

    def yield_point(self, token, enabled=None):
        t = current()
        if t is None or t.sched is not self:
            return
        if self.killing:
            raise Killed()
        t.pending = token
        t.enabled = enabled or (lambda: True)
        self._back()
        t.go.wait()
        t.go.clear()
        if self.killing:
            raise Killed()
        t.enabled = lambda: True


# --------------------------------------------------------------------------------------
# scheduler-aware synchronisation primitives
# --------------------------------------------------------------------------------------
class SLock:
    """Stand-in for threading.Lock / multiprocessing.Lock."""
    _n = 0

    def __init__(self, *a, **k):
        SLock._n += 1
        self.name = "L%d" % SLock._n
        self.holder = None
        self._real = _thread.allocate_lock()

    def acquire(self, blocking=True, timeout=-1):
        t = current()
        if t is None:
            return self._real.acquire(blocking, timeout)
        t.sched.yield_point(("acquire", self.name), lambda: self.holder is None)
        assert self.holder is None
        self.holder = t.tid
        t.nheld = getattr(t, "nheld", 0) + 1
        t.hist.append(("acquire", self.name))
        if t.sched.on_lock:
            t.sched.on_lock("acquire", t.tid, self.name)
        return True

    def release(self):
        t = current()
        if t is None:
            return self._real.release()
        if self.holder is None:
            raise RuntimeError("release unlocked lock")
        if t.sched.on_lock:
            t.sched.on_lock("release", t.tid, self.name)
        self.holder = None
        t.nheld = max(0, getattr(t, "nheld", 0) - 1)

    def locked(self):
        return self.holder is not None or self._real.locked()

    __enter__ = acquire

    def __exit__(self, *a):
        self.release()


class SCond:
    """Stand-in for threading.Condition / multiprocessing.Condition."""
    _n = 0

    def __init__(self, lock=None):
        SCond._n += 1
        self.name = "C%d" % SCond._n
        self.lock = lock if lock is not None else SLock()
        self.waiters = []

    def acquire(self, *a):
        return self.lock.acquire(*a)

    def release(self):
        return self.lock.release()

    def __enter__(self):
        return self.lock.acquire()

    def __exit__(self, *a):
        self.lock.release()

    def wait(self, timeout=None):
        t = current()
        if t is None:
            raise RuntimeError("SCond.wait from unmanaged thread")
        if self.lock.holder != t.tid:
            raise RuntimeError("cannot wait on un-acquired lock")
        me = (t.tid, object())
        self.waiters.append(me)
        if t.sched.on_lock:
            t.sched.on_lock("wait", t.tid, self.name)
        self.lock.holder = None
        t.sched.yield_point(("wakeup", self.name),
                            lambda: me not in self.waiters and self.lock.holder is None)
        self.lock.holder = t.tid
        t.hist.append(("wakeup", self.name))
        if t.sched.on_lock:
            t.sched.on_lock("wakeup", t.tid, self.name)
        return True

    def notify(self, n=1):
        t = current()
        if t is not None and self.lock.holder != t.tid:
            raise RuntimeError("cannot notify on un-acquired lock")
        for _ in range(n):
            if self.waiters:
                self.waiters.pop(0)

    def notify_all(self):
        self.notify(len(self.waiters))


class SList(list):
    """Stand-in for multiprocessing.Manager().list() (and, in threading mode, for the plain
    lists of claimed identifiers).  The code only ever touches these lists inside a
    `with condition:` section; an access made while the thread holds NO lock is a shared
    operation in its own right and becomes a scheduling point."""

    def _touch(self, op):
        t = current()
        if t is None or getattr(t, "nheld", 0) > 0:
            return
        t.sched.yield_point(("list", op))
        t.hist.append(("list", op))
        if t.sched.on_lock:
            t.sched.on_lock("list", t.tid, op)

    def append(self, x):
        self._touch("append")
        return list.append(self, x)

    def remove(self, x):
        self._touch("remove")
        return list.remove(self, x)

    def __contains__(self, x):
        self._touch("contains")
        return list.__contains__(self, x)


class SManager:
    def list(self, *a):
        return SList(*a)

    def shutdown(self):
        pass


class patched_primitives:
    """Context manager: while active, threading.Lock/Condition and
    multiprocessing.Lock/Condition/Manager create scheduler-aware stand-ins."""

    def __enter__(self):
        import multiprocessing
        self.saved = (threading.Lock, threading.Condition, multiprocessing.Lock,
                      multiprocessing.Condition, multiprocessing.Manager)
        SLock._n = 0
        SCond._n = 0
        threading.Lock, threading.Condition = SLock, SCond
        multiprocessing.Lock, multiprocessing.Condition = SLock, SCond
        multiprocessing.Manager = SManager
        return self

    def __exit__(self, *a):
        import multiprocessing
        (threading.Lock, threading.Condition, multiprocessing.Lock,
         multiprocessing.Condition, multiprocessing.Manager) = self.saved
