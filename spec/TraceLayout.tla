----------------------------- MODULE TraceLayout -----------------------------
(* code -> spec for C15: every file found in a real store (one record each) must sit where
   Layout.tla puts it and hold what Layout.tla says; nothing else may exist. *)
EXTENDS Layout, TLC, Json, IOUtils, TLCExt, FiniteSets

Obs == JsonDeserialize(IOEnv.TRACE_FILE)
N   == Len(Obs.records)
VARIABLE k
Init == k = 0
Next == k = 0 /\ k' \in 1..N
Spec == Init /\ [][Next]_k
R == Obs.records[k]
Log(name) == PrintT("VIOL " \o name \o " " \o ToString(k))
Judge(name, ok) == k = 0 \/ ok \/ Log(name)
Is(kind) == k > 0 /\ R.kind = kind

At(loc) == R.top = loc.top /\ R.tokens = loc.tokens
I_Obj == Is("obj") => Judge("C15_ObjectPath", At(ObjPath(R.cid, R.depth, R.width)))
I_PidRef == Is("pidref") =>
  Judge("C15_PidRef", /\ At(PidRefPath(R.hpid, R.depth, R.width))
                      /\ R.content = PidRefContent(R.cid))
I_CidRef == Is("cidref") =>
  Judge("C15_CidRef", /\ At(CidRefPath(R.cid, R.depth, R.width))
                      /\ R.content = CidRefContent(R.pids))
I_Doc == Is("doc") =>
  Judge("C15_DocPath", At(DocPath(R.hpid, R.hdoc, R.depth, R.width)))
I_Yaml == Is("yaml") =>
  Judge("C15_Yaml", /\ YamlKeys \subseteq {R.keys[i] : i \in 1..Len(R.keys)}
                    /\ R.depthv = R.depth /\ R.widthv = R.width /\ R.algov = R.algo
                    /\ R.nsv = R.ns /\ R.algolist = DefaultAlgoList)
I_Extra == Is("extra") => Judge("C15_NothingElse", FALSE)
I_Summary == Is("summary") =>
  Judge("C15_AllPresent", R.found = R.expected)
AllJudged == PrintT("JUDGED " \o ToString(TLCGet("stats").distinct - 1) \o " OF " \o ToString(N))
=============================================================================
