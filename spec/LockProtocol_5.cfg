SPECIFICATION Spec
CONSTANTS
  Thread = {"t1", "t2", "t3", "t4", "t5"}
  Id = {"x", "y"}
  Want <- Want5
INVARIANT MutualExclusion
INVARIANT NoDuplicates
INVARIANT ListIsHolders
INVARIANT NoStranding
INVARIANT IndInv
PROPERTY EveryoneFinishes
