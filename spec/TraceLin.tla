------------------------------- MODULE TraceLin -------------------------------
(***************************************************************************)
(* code -> spec for CONCURRENT executions of the real FileHashStore.       *)
(*                                                                         *)
(* The harness explores the interleavings of a scenario (a start state and *)
(* one call per thread) under its cooperative scheduler and writes         *)
(*   Obs.outcomes : the distinct terminal outcomes                         *)
(*        [start, calls, results, final, locksLeft, deadlock, blocked]     *)
(*   Obs.states   : the distinct abstract store states seen BETWEEN two    *)
(*                  file-system operations of any execution                *)
(* TLC judges each outcome against the contract: C07 / C12 linearizability *)
(* (some permutation of the calls, run through Apply from the start state, *)
(* gives exactly the observed results and final state), C08 termination    *)
(* and lock hygiene; and each intermediate state against C09.              *)
(***************************************************************************)
EXTENDS HashStoreAPI, Json, IOUtils, TLCExt

Obs == JsonDeserialize(IOEnv.TRACE_FILE)
NO  == Len(Obs.outcomes)
NS  == Len(Obs.states)

VARIABLE k      \* 0 = not started; 1..NO outcomes; NO+1..NO+NS states
Init == k = 0
Next == k = 0 /\ k' \in 1..(NO + NS)
Spec == Init /\ [][Next]_k

IsOutcome == k \in 1..NO
IsState   == k \in (NO + 1)..(NO + NS)
O == Obs.outcomes[k]
S == Obs.states[k - NO].abs

Log(name) == PrintT("VIOL " \o name \o " " \o ToString(k))
Judge(name, ok) == ok \/ Log(name)

(***************************************************************************)
(* Linearizability against Apply                                           *)
(***************************************************************************)
ResMatch(a, r) == a.cls = r.cls /\ a.cid = r.cid /\ a.data = r.data /\ r.truth

RECURSIVE Run(_, _, _, _)
Run(o, s, perm, j) ==
  IF j > Len(perm) THEN s = o.final
  ELSE LET a == Apply(s, o.calls[perm[j]]) IN
       ResMatch(a.res, o.results[perm[j]]) /\ Run(o, a.st, perm, j + 1)

Orders(live) ==
  LET m == Cardinality(live) IN
  {f \in [1..m -> live] : \A x, y \in 1..m : x # y => f[x] # f[y]}

\* the documented extra outcome: a store_object rejected because another
\* in-flight call of the scenario holds the same pid
InProgressOK(o, j) ==
  /\ o.calls[j].op = "store"
  /\ \E i \in 1..Len(o.calls) : i # j /\ o.calls[i].pid = o.calls[j].pid
                               /\ o.calls[i].op \in {"store", "delete"}

Linearizable(o) ==
  LET n    == Len(o.calls)
      live == {j \in 1..n : o.results[j].cls # "inprogress"}
  IN /\ \A j \in (1..n) \ live : InProgressOK(o, j)
     /\ WellFormed(o.start)
     /\ \E perm \in Orders(live) : Run(o, o.start, perm, 1)

I_Linearizable == IsOutcome => (O.deadlock \/ Judge(O.family \o "_Linearizable", Linearizable(O)))
I_NoDeadlock   == IsOutcome => Judge("C08_NoDeadlock",
                      ~O.deadlock /\ \A j \in 1..Len(O.results) : O.results[j].cls # "blocked")
I_NothingLocked == IsOutcome => Judge("C08_NothingLocked",
                      O.deadlock \/ (O.locksLeft = 0 /\ ~O.blocked))

(***************************************************************************)
(* C09 at every intermediate state                                         *)
(***************************************************************************)
Complete(s) ==
  /\ \A c \in Cid : s.obj[c] \in {"absent", "ok"}
  /\ \A p \in Pid : s.pref[p] # Junk
  /\ \A p \in Pid, f \in Fmt : s.doc[p][f] # Junk
I_C09_Complete == IsState => Judge("C09_Complete", Complete(S))

AllJudged == PrintT("JUDGED " \o ToString(TLCGet("stats").distinct - 1) \o " OF " \o ToString(NO + NS))
=============================================================================
