"""C20: the command-line client against the API on copies of the same real store.
The cases and the API call each stands for are enumerated by TLC from spec/Client.tla."""
import contextlib
import hashlib
import io
import json
import multiprocessing
import os
import shutil
import sys

import yaml

from . import absfn, tlc
from .driver import load_hashstore

NS = "https://ns.dataone.org/service/types/v2.0#SystemMetadata"
OTHER_FMT = "http://ns.example/other-format"
CONTENT = {
    "ascii": b"plain ascii content\nline two\n" * 60,
    "crlf": b"first line\r\nsecond line\r\nthird\rfourth\n" * 40,
    "multibyte": ("é" * 600 + "tail 中文 \U0001f600\n" * 30).encode("utf-8"),
}
NEW_CONTENT = b"brand new object content for -storeobject\n" * 33


def cases():
    r = tlc.run_tlc("Client", cfg_file="Client.cfg", workers=1)
    lines = r.printed("CASES")
    if not lines:
        raise RuntimeError("Client.tla produced no cases:\n" + r.out[-2000:])
    cs = json.loads(lines[0])
    cs.sort(key=lambda c: json.dumps(c, sort_keys=True))
    return cs, r


def tree_hash(root):
    files, dirs = absfn.snapshot(root)
    return hashlib.sha256(repr((sorted(files.items()), sorted(dirs))).encode()).hexdigest()[:20]


class Env:
    def __init__(self, base, fhs):
        self.base, self.fhs = base, fhs
        os.makedirs(base, exist_ok=True)
        self.files = {}
        for k, b in list(CONTENT.items()) + [("new", NEW_CONTENT), ("meta", b"<meta v='new'/>")]:
            p = os.path.join(base, "in_" + k)
            with open(p, "wb") as f:
                f.write(b)
            self.files[k] = p
        self.template = os.path.join(base, "template")
        st = fhs.FileHashStore({"store_path": self.template, "store_depth": 3, "store_width": 2,
                                "store_algorithm": "SHA-256", "store_metadata_namespace": NS})
        for k in CONTENT:
            st.store_object("cli:known:" + k, self.files[k])
            st.store_metadata("cli:known:" + k, self.files[k])
            st.store_metadata("cli:known:" + k, self.files[k], OTHER_FMT)
        self.before = tree_hash(self.template)

    def pid(self, case):
        v = case["pid"]
        if v == "-":
            return None
        if v == "unknown":
            return "cli:unknown:pid"
        if case["verb"] == "storeobject":
            return "cli:new:pid"
        return "cli:known:" + case["content"]

    def values(self, case):
        true256 = hashlib.sha256(NEW_CONTENT).hexdigest()
        sumalg = {"-": None, "sha256": "sha256", "SHA-256": "SHA-256", "empty": "",
                  "bogus": "crc99"}[case["sumalg"]]
        checksum = {"-": None, "good": true256, "goodupper": true256.upper(),
                    "bad": hashlib.sha256(b"zz").hexdigest(), "empty": ""}[case["sum"]]
        size = {"-": None, "good": str(len(NEW_CONTENT)), "bad": str(len(NEW_CONTENT) + 5),
                "zero": "0", "negative": "-3", "nonint": "12x"}[case["size"]]
        algo = {"-": None, "sha224": "sha224", "SHA-384": "SHA-384", "bogus": "crc99",
                "sha256": "sha256", "SHA-256": "SHA-256"}[case["algo"]]
        fmt = {"-": None, "default": NS, "other": OTHER_FMT}[case["fmt"]]
        return algo, checksum, sumalg, size, fmt

    # ------------------------------------------------------------------ client side
    def run_client(self, root, case):
        import hashstore.hashstoreclient as cli
        algo, checksum, sumalg, size, fmt = self.values(case)
        argv = ["hashstore", root, "-" + case["verb"]]
        pid = self.pid(case)
        if pid is not None:
            argv.append("-pid=" + pid)
        if case["verb"] == "storeobject":
            argv.append("-path=" + self.files["new"])
        if case["verb"] == "storemetadata":
            argv.append("-path=" + self.files["meta"])
        for opt, val in (("-algo", algo), ("-checksum", checksum), ("-checksum_algo", sumalg),
                         ("-obj_size", size), ("-formatid", fmt)):
            if val is not None:
                argv.append("%s=%s" % (opt, val))
        out = io.StringIO()
        raised = False
        err = None
        old_argv = sys.argv
        sys.argv = argv
        try:
            with contextlib.redirect_stdout(out), contextlib.redirect_stderr(io.StringIO()):
                cli.main()
        except BaseException as e:  # noqa  (argparse exits with SystemExit)
            raised = True
            err = type(e).__name__
        finally:
            sys.argv = old_argv
        return {"raised": raised, "err": err, "tree": tree_hash(root),
                "payload": out.getvalue().replace(root, "<root>")}

    # ------------------------------------------------------------------ API side
    def run_api(self, root, case, api):
        algo, checksum, sumalg, size, fmt = self.values(case)
        pid = self.pid(case)
        raised, err, payload = False, None, ""
        try:
            y = yaml.safe_load(open(os.path.join(root, "hashstore.yaml")))
            st = self.fhs.FileHashStore({"store_path": root, "store_depth": y["store_depth"],
                                         "store_width": y["store_width"],
                                         "store_algorithm": y["store_algorithm"],
                                         "store_metadata_namespace": y["store_metadata_namespace"]})
            m = api["method"]
            if m == "store_object":
                if api["size_type"] == "untypable":
                    raise TypeError("size cannot be given to the API as an integer")
                isize = int(size) if size is not None else None
                om = st.store_object(pid, self.files["new"], algo, checksum, sumalg, isize)
                payload = "Object Metadata:\n%s\n" % (om,)
            elif m == "get_hex_digest":
                d = st.get_hex_digest(pid, algo)
                payload = "guid/pid: %s\nalgorithm: %s\nChecksum/Hex Digest: %s\n" % (pid, algo, d)
            elif m == "retrieve_object":
                f = st.retrieve_object(pid)
                try:
                    txt = f.read(1000).decode("utf-8")
                finally:
                    f.close()
                payload = txt + "\n...\n<-- Truncated for Display Purposes -->\n"
            elif m == "retrieve_metadata":
                f = st.retrieve_metadata(pid, fmt)
                try:
                    txt = f.read(1000).decode("utf-8")
                finally:
                    f.close()
                payload = txt + "\n...\n<-- Truncated for Display Purposes -->\n"
            elif m == "delete_object":
                r = st.delete_object(pid)
                payload = "Object Deleted (T/F): %s\n" % (r,)
            elif m == "store_metadata":
                r = st.store_metadata(pid, self.files["meta"], fmt)
                payload = "Metadata Path: %s\n" % (r,)
            elif m == "delete_metadata":
                r = st.delete_metadata(pid, fmt)
                shown = fmt if fmt is not None else NS
                payload = "Metadata for pid: %s & formatid: %s\nDeleted (T/F): %s\n" % (pid, shown, r)
        except BaseException as e:  # noqa
            raised = True
            err = type(e).__name__
            payload = ""
        return {"raised": raised, "err": err, "tree": tree_hash(root),
                "payload": payload.replace(root, "<root>")}


def _worker(args):
    cs, base = args
    fhs, _ = load_hashstore()
    env = Env(base, fhs)
    recs = []
    for i, c in enumerate(cs):
        a = os.path.join(base, "a%d" % i)
        b = os.path.join(base, "b%d" % i)
        shutil.copytree(env.template, a)
        shutil.copytree(env.template, b)
        cli = env.run_client(a, c["case"])
        api = env.run_api(b, c["case"], c["api"]) if c["required"] else \
            {"raised": True, "err": "-", "tree": env.before, "payload": ""}
        recs.append({"kind": "verb", "case": c["case"], "api_call": c["api"],
                     "required": c["required"], "before": env.before, "cli": cli, "api": api})
        shutil.rmtree(a)
        shutil.rmtree(b)
    shutil.rmtree(base, ignore_errors=True)
    return recs


def props_records(base):
    """A store created by the client opens through the API with the same properties, and
    vice versa."""
    fhs, _ = load_hashstore()
    import hashstore.hashstoreclient as cli
    recs = []
    os.makedirs(base, exist_ok=True)
    for (d, w, algo, ns) in [(3, 2, "SHA-256", NS), (1, 4, "MD5", OTHER_FMT), (5, 1, "SHA-512", NS)]:
        a = os.path.join(base, "cli_%d%d" % (d, w))
        b = os.path.join(base, "api_%d%d" % (d, w))
        ok, why = True, []
        old = sys.argv
        sys.argv = ["hashstore", a, "-chs", "-dp=%d" % d, "-wp=%d" % w, "-ap=" + algo, "-nsp=" + ns]
        try:
            with contextlib.redirect_stdout(io.StringIO()):
                cli.main()
        except BaseException as e:  # noqa
            ok = False
            why.append("client -chs raised %s" % type(e).__name__)
        finally:
            sys.argv = old
        props = {"store_path": b, "store_depth": d, "store_width": w, "store_algorithm": algo,
                 "store_metadata_namespace": ns}
        try:
            fhs.FileHashStore(props)
            ya = yaml.safe_load(open(os.path.join(a, "hashstore.yaml")))
            yb = yaml.safe_load(open(os.path.join(b, "hashstore.yaml")))
            if ya != yb:
                ok = False
                why.append("yaml differs")
            fhs.FileHashStore(dict(props, store_path=a))      # API opens the client's store
            sys.argv = ["hashstore", b, "-deletemetadata", "-pid=nobody"]   # client opens API's
            try:
                with contextlib.redirect_stdout(io.StringIO()):
                    cli.main()
            finally:
                sys.argv = old
            da = absfn.snapshot(a)[1]
            db = absfn.snapshot(b)[1]
            if da != db:
                ok = False
                why.append("directory trees differ")
        except BaseException as e:  # noqa
            ok = False
            why.append("%s: %s" % (type(e).__name__, e))
        recs.append({"kind": "props", "ok": ok, "why": why, "config": [d, w, algo, ns]})
    shutil.rmtree(base, ignore_errors=True)
    return recs


def chs_records(base):
    """-chs (create store) pointed at a directory that already holds a store: same outcome as
    constructing FileHashStore with those properties there (accepted iff they equal the
    store's, refused without touching anything otherwise)."""
    fhs, _ = load_hashstore()
    import hashstore.hashstoreclient as cli
    recs = []
    os.makedirs(base, exist_ok=True)
    inp = os.path.join(base, "in")
    with open(inp, "wb") as f:
        f.write(b"chs content\r\n" * 9)
    for qi, (d, w, algo, ns) in enumerate([(3, 2, "SHA-256", NS), (2, 3, "SHA-512", OTHER_FMT)]):
        t = os.path.join(base, "t%d" % qi)
        st = fhs.FileHashStore({"store_path": t, "store_depth": d, "store_width": w,
                                "store_algorithm": algo, "store_metadata_namespace": ns})
        st.store_object("chs:pid", inp)
        st.store_metadata("chs:pid", inp)
        before = tree_hash(t)
        variants = [("same", d, w, algo, ns), ("depth", d + 1, w, algo, ns),
                    ("width", d, w + 1, algo, ns),
                    ("algo", d, w, "MD5" if algo != "MD5" else "SHA-1", ns),
                    ("ns", d, w, algo, ns + "/v3")]
        for vi, (what, d2, w2, a2, n2) in enumerate(variants):
            a = os.path.join(base, "a%d_%d" % (qi, vi))
            b = os.path.join(base, "b%d_%d" % (qi, vi))
            shutil.copytree(t, a)
            shutil.copytree(t, b)
            old = sys.argv
            sys.argv = ["hashstore", a, "-chs", "-dp=%d" % d2, "-wp=%d" % w2, "-ap=" + a2, "-nsp=" + n2]
            craised = False
            try:
                with contextlib.redirect_stdout(io.StringIO()), contextlib.redirect_stderr(io.StringIO()):
                    cli.main()
            except BaseException:  # noqa
                craised = True
            finally:
                sys.argv = old
            araised = False
            try:
                fhs.FileHashStore({"store_path": b, "store_depth": d2, "store_width": w2,
                                   "store_algorithm": a2, "store_metadata_namespace": n2})
            except BaseException:  # noqa
                araised = True
            recs.append({"kind": "chs", "differs": what, "made": [d, w, algo, ns], "before": before,
                         "cli": {"raised": craised, "tree": tree_hash(a)},
                         "api": {"raised": araised, "tree": tree_hash(b)}})
            shutil.rmtree(a)
            shutil.rmtree(b)
    shutil.rmtree(base, ignore_errors=True)
    return recs


def run(tier, seed):
    cs, r = cases()
    base = os.path.join(tlc.scratch_root(), "cli.%d" % os.getpid())
    n = 16
    jobs = [(cs[i::n], os.path.join(base, "w%d" % i)) for i in range(n)]
    with multiprocessing.get_context("fork").Pool(n) as pool:
        res = pool.map(_worker, jobs)
    recs = [x for chunk in res for x in chunk]
    recs += props_records(os.path.join(base, "props"))
    recs += chs_records(os.path.join(base, "chs"))
    shutil.rmtree(base, ignore_errors=True)
    return recs, len(cs), r
