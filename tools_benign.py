#!/usr/bin/env python3
"""Run every quick check against behaviour-preserving changes (scratch worktree, HASHSTORE_SRC):
none may print VIOLATION. Writes /tmp/benign/result.json."""
import json, os, subprocess, sys, glob, shutil
checks = [c["property_id"] for c in json.load(open("/verif/MANIFEST.json"))["checks"]]
out = {}
ROOT = os.environ.get("BENROOT", "/tmp/benign")
for d in sorted(glob.glob(ROOT + "/*.diff")):
    name = os.path.basename(d)[:-5]
    if len(sys.argv) > 1 and not any(name.startswith(a) for a in sys.argv[1:]):
        continue
    wt = "/tmp/wtm/benign_" + name
    subprocess.run("git -C /repo worktree remove --force %s" % wt, shell=True, capture_output=True)
    shutil.rmtree(wt, ignore_errors=True)
    subprocess.run("git -C /repo worktree add -q --detach %s HEAD" % wt, shell=True, check=True)
    subprocess.run("git apply %s" % d, shell=True, cwd=wt, check=True)
    env = dict(os.environ, HASHSTORE_SRC=wt + "/src", VERIF_SCRATCH_OUT="/tmp/wtm/out_" + name, VERIF_NOCACHE="0")   # cache lives in the per-change scratch out dir, keyed by tree
    p = subprocess.run("timeout 900 /venv/bin/python -m pytest -q -p no:cacheprovider -n 4 2>&1 | tail -1", shell=True, cwd=wt,
                       env=dict(os.environ, PYTHONPATH=wt + "/src"), capture_output=True, text=True)
    res = {"suite": p.stdout.strip()}
    for chk in checks:
        p = subprocess.run(["./check", chk, "--tier", "quick"], cwd="/verif", env=env, capture_output=True, text=True, timeout=3600)
        lines = p.stdout.splitlines()
        res[chk] = {"rc": p.returncode, "violations": [l[:260] for l in lines if l.startswith("VIOLATION")][:3],
                    "drift": [l for l in lines if l.startswith("DRIFT")][:1],
                    "machinery": [l[:200] for l in lines if l.startswith("MACHINERY")][:2]}
    out[name] = res
    subprocess.run("git -C /repo worktree remove --force %s" % wt, shell=True, capture_output=True)
    shutil.rmtree(wt, ignore_errors=True); shutil.rmtree(env["VERIF_SCRATCH_OUT"], ignore_errors=True)
    bad = {k: v for k, v in res.items() if isinstance(v, dict) and (v["rc"] != 0)}
    print(name, res["suite"], "ALARMS:" if bad else "clean", json.dumps(bad)[:600], flush=True)
    json.dump(out, open(ROOT + "/result.json", "w"), indent=1)
