SPECIFICATION Spec
CONSTANTS
  Pid = {"p1", "p2", "p3"}
  Content = {"a", "b"}
  ExtraCid = {"x"}
  Fmt = {"fD"}
  Ver = {"v1"}
  Ops = {"store", "storenp", "tag", "delete", "dii"}
  Thread <- ScenThread
  Job <- ScenJob
  Start <- ScenStart
  defaultInitValue = defaultInitValue
INVARIANT LocksEmpty
INVARIANT LinearizableOrK1
INVARIANT NoResidue
VIEW ViewNoEv
PROPERTY Termination
