----------------------------- MODULE HashStoreAPI -----------------------------
(***************************************************************************)
(* Layer 1 - the CONTRACT of the public HashStore API.                     *)
(*                                                                         *)
(* Apply(s, call) is the atomic, sequential, fault-free meaning of one     *)
(* public call on the abstract store state of HSTypes: the result class    *)
(* with its payload and the successor state.  It is written to follow      *)
(* FileHashStore (src/hashstore/filehashstore.py) branch by branch:        *)
(*   store_object / tag_object       -> the four-way reference split       *)
(*   delete_object                   -> _find_object classification and    *)
(*                                      the four clean-up branches         *)
(*   delete_if_invalid_object        -> _delete_object_only                *)
(*   store/retrieve/delete_metadata  -> document map                       *)
(* The properties themselves are NOT here (see HSProps); TLC checks that   *)
(* this contract satisfies them on every reachable (state, call) pair, and *)
(* the harness checks that the real code behaves like this contract.       *)
(***************************************************************************)
EXTENDS HSTypes

CONSTANT Ops   \* the operations in this configuration's call alphabet

(***************************************************************************)
(* Argument alphabets                                                      *)
(***************************************************************************)
StoreVal == {"none", "good", "badsum", "badsize"}  \* validation data supplied
DiiVal   == {"good", "badsum", "badsize"}
FmtArg   == Fmt \cup {NoFmt}

\* Invalid-argument call templates (C17).  Each names one public method and
\* one (or two) bad parameter(s); the harness owns the concrete spelling.
\* BadClass gives the documented error class.
BadKinds ==
  { "store_pid_empty", "store_pid_space", "store_pid_tab", "store_pid_nl",
    "store_data_none", "store_data_emptystr", "store_data_int", "store_data_bytes",
    "store_data_textstream", "store_data_rawio", "store_data_list",
    "store_algo_unsupported", "store_sumalgo_unsupported",
    "store_sum_without_algo", "store_algo_without_sum", "store_sum_empty",
    "store_size_zero", "store_size_negative", "store_size_str", "store_size_float",
    "store_pid_empty_size_zero", "store_algo_unsupported_size_str",
    "store_data_none_sum_without_algo",
    "storenp_data_int", "storenp_data_emptystr",
    "tag_pid_none", "tag_pid_empty", "tag_pid_space", "tag_cid_none", "tag_cid_empty",
    "tag_cid_space", "tag_pid_none_cid_none",
    "retrieve_pid_none", "retrieve_pid_empty", "retrieve_pid_space", "retrieve_unknown",
    "delete_pid_none", "delete_pid_empty", "delete_pid_space", "delete_unknown",
    "hex_pid_none", "hex_pid_empty", "hex_algo_none", "hex_algo_empty",
    "hex_algo_unsupported", "hex_unknown",
    "dii_meta_none", "dii_meta_wrongtype", "dii_sum_none", "dii_sum_empty",
    "dii_algo_none", "dii_algo_unsupported", "dii_size_zero", "dii_size_str",
    "dii_meta_none_size_zero",
    "putmeta_pid_none", "putmeta_pid_empty", "putmeta_pid_space", "putmeta_data_none",
    "putmeta_data_emptystr", "putmeta_data_int", "putmeta_data_textstream",
    "putmeta_fmt_space", "putmeta_pid_none_data_none",
    "getmeta_pid_none", "getmeta_pid_empty", "getmeta_fmt_space", "getmeta_unknown",
    "delmeta_pid_none", "delmeta_pid_empty", "delmeta_fmt_space",
    \* empty-string spellings of "a checksum without its algorithm or the reverse"
    "store_sum_empty_no_algo", "store_sum_empty_algo_empty", "store_algo_empty_no_sum",
    "store_sum_space", "dii_algo_empty", "dii_size_negative", "putmeta_fmt_nl",
    \* a bad parameter together with validation data that does NOT match the object: the
    \* call must be rejected for its arguments before any verdict is acted upon
    "store_sumalgo_unsupported_size_wrong", "store_algo_unsupported_sum_wrong",
    "dii_algo_unsupported_size_wrong", "dii_algo_unsupported_sum_wrong",
    "dii_sum_space_size_wrong" }

\* The documented error class(es): "badvalue" = ValueError, "badtype" = TypeError,
\* "unsupported" = UnsupportedAlgorithm, "nopid" = PidRefsDoesNotExist, "notfound".
\* A call with two bad parameters may be rejected for either.
BadClass(k) ==
  CASE k \in {"store_algo_unsupported", "store_sumalgo_unsupported",
              "dii_algo_unsupported", "store_sumalgo_unsupported_size_wrong",
              "store_algo_unsupported_sum_wrong", "dii_algo_unsupported_size_wrong",
              "dii_algo_unsupported_sum_wrong"} -> {"unsupported"}
    [] k = "hex_algo_unsupported" -> {"unsupported", "nopid"}
    [] k = "store_algo_unsupported_size_str" -> {"unsupported", "badtype"}
    [] k \in {"retrieve_unknown", "delete_unknown", "hex_unknown"} -> {"nopid"}
    [] k = "getmeta_unknown" -> {"notfound"}
    [] k \in {"store_data_none", "store_data_emptystr", "store_data_int", "store_data_bytes",
              "store_data_textstream", "store_data_rawio", "store_data_list",
              "store_size_str", "store_size_float", "storenp_data_int",
              "storenp_data_emptystr", "dii_size_str",
              "putmeta_data_none", "putmeta_data_emptystr", "putmeta_data_int",
              "putmeta_data_textstream"} -> {"badtype"}
    [] k \in {"store_data_none_sum_without_algo", "putmeta_pid_none_data_none"}
         -> {"badtype", "badvalue"}
    [] OTHER -> {"badvalue"}

(***************************************************************************)
(* The calls                                                               *)
(***************************************************************************)
AllCalls ==
       {Call("store",   p, c, v, "-", "-") : p \in Pid, c \in Content, v \in StoreVal}
  \cup {Call("storenp", "-", c, "-", "-", "-") : c \in Content}
  \cup {Call("tag",     p, c, "-", "-", "-") : p \in Pid, c \in Cid}
  \cup {Call("delete",  p, "-", "-", "-", "-") : p \in Pid}
  \cup {Call("dii",     "-", c, v, "-", "-") : c \in Content, v \in DiiVal}
  \cup {Call("retrieve", p, "-", "-", "-", "-") : p \in Pid}
  \cup {Call("hex",     p, "-", "-", "-", "-") : p \in Pid}
  \cup {Call("putmeta", p, "-", "-", f, v) : p \in Pid, f \in FmtArg, v \in Ver}
  \cup {Call("getmeta", p, "-", "-", f, "-") : p \in Pid, f \in FmtArg}
  \cup {Call("delmeta", p, "-", "-", f, "-") : p \in Pid, f \in FmtArg}
  \cup {Call("bad", "-", "-", k, "-", "-") : k \in BadKinds}

Calls == {call \in AllCalls : call.op \in Ops}

\* delete_if_invalid_object takes the ObjectMetadata returned by an earlier
\* store of content c; the call is meaningful only while that object exists.
Enabled(s, call) == call.op = "dii" => s.obj[call.c] = "ok"

(***************************************************************************)
(* _find_object classification of a pid                                    *)
(***************************************************************************)
Classify(s, p) ==
  LET c == s.pref[p] IN
  IF c = None THEN "nopid"
  ELSE IF c \notin Cid THEN "inconsistent"
  ELSE IF ~s.cref[c].has THEN "orphan"
  ELSE IF ~InSeq(p, s.cref[c].pids) THEN "notinlist"
  ELSE IF s.obj[c] = "absent" THEN "objmissing"
  ELSE "found"

(***************************************************************************)
(* tag_object / _store_hashstore_refs_files                                *)
(***************************************************************************)
TagApply(s, p, c) ==
  IF s.pref[p] # None
    THEN [res |-> RCls("exists"), st |-> s]
    ELSE LET lst == IF s.cref[c].has
                      THEN IF InSeq(p, s.cref[c].pids) THEN s.cref[c].pids
                           ELSE Append(s.cref[c].pids, p)
                      ELSE <<p>>
         IN [res |-> ROk,
             st  |-> [s EXCEPT !.pref[p] = c, !.cref[c] = List(lst)]]

(***************************************************************************)
(* store_object with a pid: stage, validate, publish unless present, tag   *)
(***************************************************************************)
StoreApply(s, p, c, v) ==
  IF v \in {"badsum", "badsize"}
    THEN [res |-> RCls(v), st |-> s]          \* staged file removed, nothing else
    ELSE LET s1 == [s EXCEPT !.obj[c] = "ok"]
             t  == TagApply(s1, p, c)
         IN IF t.res.cls = "ok"
              THEN [res |-> Res("ok", c, c), st |-> t.st]
              ELSE [res |-> t.res, st |-> t.st]   \* object stays (tagging rejected)

StoreNoPidApply(s, c) ==
  [res |-> Res("ok", c, c), st |-> [s EXCEPT !.obj[c] = "ok"]]

(***************************************************************************)
(* delete_object                                                           *)
(***************************************************************************)
DeleteApply(s, p) ==
  LET c   == s.pref[p]
      cls == Classify(s, p)
      s0  == [s EXCEPT !.pref[p] = None, !.doc[p] = NoDocs]
  IN CASE cls = "nopid" -> [res |-> RCls("nopid"), st |-> s]
       [] cls \in {"orphan", "notinlist", "inconsistent"} -> [res |-> ROk, st |-> s0]
       [] OTHER ->  \* "found" and "objmissing": drop p from the list
            LET rest == Without(s.cref[c].pids, p) IN
            IF rest = <<>>
              THEN [res |-> ROk,
                    st |-> [s0 EXCEPT !.cref[c] = NoList, !.obj[c] = "absent"]]
              ELSE [res |-> ROk, st |-> [s0 EXCEPT !.cref[c] = List(rest)]]

(***************************************************************************)
(* delete_if_invalid_object                                                *)
(***************************************************************************)
DiiApply(s, c, v) ==
  IF v = "good" THEN [res |-> ROk, st |-> s]
  ELSE IF s.obj[c] = "absent" /\ ~s.cref[c].has
    THEN [res |-> RCls("ioerror"), st |-> s]   \* nothing to delete: FileNotFoundError
  ELSE [res |-> RCls(v),
        st  |-> IF s.cref[c].has THEN s ELSE [s EXCEPT !.obj[c] = "absent"]]

(***************************************************************************)
(* readers                                                                 *)
(***************************************************************************)
RetrieveApply(s, p) ==
  LET cls == Classify(s, p) IN
  CASE cls = "nopid" -> [res |-> RCls("nopid"), st |-> s]
    [] cls = "found" -> [res |-> Res("ok", s.pref[p], s.pref[p]), st |-> s]
    [] OTHER         -> [res |-> RCls("inconsistent"), st |-> s]

(***************************************************************************)
(* metadata                                                                *)
(***************************************************************************)
PutMetaApply(s, p, f, v) ==
  [res |-> ROk, st |-> [s EXCEPT !.doc[p][EffFmt(f)] = v]]

GetMetaApply(s, p, f) ==
  IF s.doc[p][EffFmt(f)] = None
    THEN [res |-> RCls("notfound"), st |-> s]
    ELSE [res |-> Res("ok", "-", s.doc[p][EffFmt(f)]), st |-> s]

DelMetaApply(s, p, f) ==
  IF f = NoFmt THEN [res |-> ROk, st |-> [s EXCEPT !.doc[p] = NoDocs]]
               ELSE [res |-> ROk, st |-> [s EXCEPT !.doc[p][f] = None]]

(***************************************************************************)
(* Apply                                                                   *)
(***************************************************************************)
Apply(s, call) ==
  CASE call.op = "store"    -> StoreApply(s, call.pid, call.c, call.val)
    [] call.op = "storenp"  -> StoreNoPidApply(s, call.c)
    [] call.op = "tag"      -> TagApply(s, call.pid, call.c)
    [] call.op = "delete"   -> DeleteApply(s, call.pid)
    [] call.op = "dii"      -> DiiApply(s, call.c, call.val)
    [] call.op = "retrieve" -> RetrieveApply(s, call.pid)
    [] call.op = "hex"      -> RetrieveApply(s, call.pid)
    [] call.op = "putmeta"  -> PutMetaApply(s, call.pid, call.fmt, call.ver)
    [] call.op = "getmeta"  -> GetMetaApply(s, call.pid, call.fmt)
    [] call.op = "delmeta"  -> DelMetaApply(s, call.pid, call.fmt)
    [] call.op = "bad"      -> [res |-> RCls(CHOOSE x \in BadClass(call.val) : TRUE), st |-> s]

\* States to which Apply can be applied (observed states may be outside).
WellFormed(s) ==
  /\ \A c \in Cid : s.obj[c] \in {"absent", "ok"}
  /\ \A p \in Pid : s.pref[p] \in Cid \cup {None}
  /\ \A c \in Cid : SeqRange(s.cref[c].pids) \subseteq Pid
  /\ \A p \in Pid, f \in Fmt : s.doc[p][f] \in Ver \cup {None}
=============================================================================
