SPECIFICATION Spec
CONSTANT MaxK = 22
CONSTANT defaultInitValue = defaultInitValue
INVARIANT RaisesUnlessDone
INVARIANT OthersUntouched
INVARIANT ErrorOnlyIfFault
INVARIANT Unlocked
INVARIANT Dump
CHECK_DEADLOCK FALSE
