"""C14: (creation configuration, reopening attempt) pairs on the real FileHashStore,
judged by TLC (spec/TraceConfig.tla with the decision table of spec/Config.tla)."""
import itertools
import multiprocessing
import os
import random
import shutil

import yaml

from . import absfn, tlc
from .driver import load_hashstore

FIVE = ["MD5", "SHA-1", "SHA-256", "SHA-384", "SHA-512"]
OTHER = ["sha256", "SHA256", "md5", "sha-256", "SHA-224", "blake2b", "SHA3-256"]
NS = ["https://ns.dataone.org/service/types/v2.0#SystemMetadata", "http://ns.example/other"]
DEFECTS = ["ok", "missing_depth", "missing_width", "missing_algo", "missing_ns", "missing_path",
           "none_depth", "none_width", "none_algo", "none_ns", "nonint_depth", "nonint_width",
           "extra_key"]
KEY = {"depth": "store_depth", "width": "store_width", "algo": "store_algorithm",
       "ns": "store_metadata_namespace", "path": "store_path"}


def props_of(s, path):
    def enc(x):
        return x["v"] if x["enc"] == "int" else str(x["v"])
    p = {"store_path": path, "store_depth": enc(s["depth"]), "store_width": enc(s["width"]),
         "store_algorithm": s["algo"], "store_metadata_namespace": s["ns"]}
    d = s["defect"]
    if d.startswith("missing_"):
        p.pop(KEY[d[8:]])
    elif d.startswith("none_"):
        p[KEY[d[5:]]] = None
    elif d.startswith("nonint_"):
        p[KEY[d[7:]]] = "3x"
    elif d == "extra_key":
        p["store_something_else"] = 7
    return p


def supplied(depth, width, algo, ns, denc="int", wenc="int", defect="ok"):
    return {"depth": {"v": depth, "enc": denc}, "width": {"v": width, "enc": wenc},
            "algo": algo, "ns": ns, "defect": defect}


def neighbours(made, rnd, nrandom):
    base = supplied(made["depth"], made["width"], made["algo"], made["ns"])
    out = [base]
    for denc, wenc in itertools.product(("int", "str"), repeat=2):
        out.append(dict(base, depth={"v": made["depth"], "enc": denc},
                        width={"v": made["width"], "enc": wenc}))
    for d in range(1, 6):
        for e in ("int", "str"):
            out.append(dict(base, depth={"v": d, "enc": e}))
    for w in range(1, 5):
        for e in ("int", "str"):
            out.append(dict(base, width={"v": w, "enc": e}))
    for a in FIVE + OTHER:
        out.append(dict(base, algo=a))
    for n in NS:
        out.append(dict(base, ns=n))
    for df in DEFECTS:
        out.append(dict(base, defect=df))
    for _ in range(nrandom):
        out.append(supplied(rnd.randint(1, 5), rnd.randint(1, 4), rnd.choice(FIVE + OTHER),
                            rnd.choice(NS), rnd.choice(("int", "str")), rnd.choice(("int", "str")),
                            rnd.choice(DEFECTS + ["ok"] * 12)))
    return out


def all_supplied():
    out = []
    for d, de, w, we, a, n in itertools.product(range(1, 6), ("int", "str"), range(1, 5),
                                                ("int", "str"), FIVE + OTHER, NS):
        out.append(supplied(d, w, a, n, de, we))
    for df in DEFECTS[1:]:
        for d, w, a, n in itertools.product((1, 3), (2, 4), ("SHA-256", "md5"), NS):
            out.append(supplied(d, w, a, n, defect=df))
    return out


def _attempt(fhs, root, s):
    before = absfn.snapshot(os.path.dirname(root))
    accepted, raised = False, False
    store = None
    try:
        store = fhs.FileHashStore(props_of(s, root))
        accepted = True
    except BaseException as e:  # noqa
        raised = isinstance(e, Exception)
    after = absfn.snapshot(os.path.dirname(root))
    return accepted, raised, absfn.fs_diff(before, after), store


def _worker(args):
    mades, tier, seed, base, widx = args
    fhs, _ = load_hashstore()
    rnd = random.Random(seed * 1000 + widx)
    os.makedirs(base, exist_ok=True)
    content = b"config-check content\n" * 40
    meta = b"<meta/>"
    inp = os.path.join(base, "content")
    with open(inp, "wb") as f:
        f.write(content)
    minp = os.path.join(base, "meta")
    with open(minp, "wb") as f:
        f.write(meta)
    recs = []
    full = None
    for mi, (made, populate) in enumerate(mades):
        # the SAME two paths for every configuration this process goes through: a path that held a
        # store with other settings a moment ago must be judged by what is on disk now
        tdir = os.path.join(base, "t")
        troot = os.path.join(tdir, "store")
        os.makedirs(tdir)
        st = fhs.FileHashStore(props_of(supplied(made["depth"], made["width"], made["algo"],
                                                 made["ns"]), troot))
        if populate:
            st.store_object("cfg:pid", inp)
            st.store_metadata("cfg:pid", minp)
            st.store_metadata("cfg:pid", minp, "other-format")
        wdir = os.path.join(base, "w")
        wroot = os.path.join(wdir, "store")
        shutil.copytree(tdir, wdir)
        attempts = neighbours(made, rnd, 40 if tier == "quick" else 400)
        for s in attempts:
            accepted, raised, fs, store = _attempt(fhs, wroot, s)
            visible = True
            if accepted and populate:
                try:
                    f = store.retrieve_object("cfg:pid")
                    visible = f.read() == content
                    f.close()
                    f = store.retrieve_metadata("cfg:pid")
                    visible = visible and f.read() == meta
                    f.close()
                    f = store.retrieve_metadata("cfg:pid", "other-format")
                    visible = visible and f.read() == meta
                    f.close()
                except BaseException:  # noqa
                    visible = False
            recs.append({"dirstate": "created", "made": made, "supplied": s,
                         "accepted": accepted, "raised": raised, "fs": fs,
                         "dataVisible": visible, "yamlMatches": True, "populated": populate})
            if fs != "same":
                shutil.rmtree(wdir)
                shutil.copytree(tdir, wdir)
        shutil.rmtree(tdir)
        shutil.rmtree(wdir)
    # creation attempts: no path, empty directory, data directories without yaml
    made0 = {"depth": 1, "width": 1, "algo": "MD5", "ns": NS[0]}
    cands = neighbours({"depth": 3, "width": 2, "algo": "SHA-256", "ns": NS[0]}, rnd,
                       30 if tier == "quick" else 300)
    if widx == 0:
        for dirstate in ("nopath", "emptydir", "datadirs"):
            for ci, s in enumerate(cands):
                cdir = os.path.join(base, "c_%s_%d" % (dirstate, ci))
                croot = os.path.join(cdir, "store")
                os.makedirs(cdir)
                if dirstate != "nopath":
                    os.makedirs(croot)
                if dirstate == "datadirs":
                    os.makedirs(os.path.join(croot, rnd.choice(["objects", "metadata", "refs"])))
                accepted, raised, fs, store = _attempt(fhs, croot, s)
                ym = True
                if accepted:
                    try:
                        y = yaml.safe_load(open(os.path.join(croot, "hashstore.yaml")))
                        ym = (y["store_depth"] == s["depth"]["v"] and y["store_width"] == s["width"]["v"]
                              and y["store_algorithm"] == s["algo"]
                              and y["store_metadata_namespace"] == s["ns"])
                    except BaseException:  # noqa
                        ym = False
                recs.append({"dirstate": dirstate, "made": made0, "supplied": s,
                             "accepted": accepted, "raised": raised, "fs": fs,
                             "dataVisible": True, "yamlMatches": ym, "populated": False})
                shutil.rmtree(cdir)
    shutil.rmtree(base, ignore_errors=True)
    return recs


def run(tier, seed):
    rnd = random.Random(seed)
    allmade = [{"depth": d, "width": w, "algo": a, "ns": n}
               for d in range(1, 6) for w in range(1, 5) for a in FIVE for n in NS]
    if tier == "quick":
        mades = [allmade[0], allmade[-1]] + rnd.sample(allmade, 22)
        mades = [(m, i % 2 == 0) for i, m in enumerate(mades)]
    else:
        mades = [(m, False) for m in allmade] + [(m, True) for m in rnd.sample(allmade, 16)]
    base = os.path.join(tlc.scratch_root(), "cfg.%d" % os.getpid())
    n = 16
    jobs = [(mades[i::n], tier, seed, os.path.join(base, "w%d" % i), i) for i in range(n)]
    jobs = [j for j in jobs if j[0] or j[4] == 0]
    with multiprocessing.get_context("fork").Pool(len(jobs)) as pool:
        res = pool.map(_worker, jobs)
    shutil.rmtree(base, ignore_errors=True)
    return [r for chunk in res for r in chunk]
