---------------------------- MODULE LockProtocol ----------------------------
(***************************************************************************)
(* Layer 2a - the identifier-claim protocol FileHashStore uses four times  *)
(* (object pids, object cids, metadata documents, reference pids), exactly *)
(* as written in _synchronize_* / _release_* :                             *)
(*                                                                         *)
(*   claim(id):   with cond:                 release(id):  with cond:      *)
(*                  while id in locked:                      locked.remove(id)*)
(*                      cond.wait()                          cond.notify()  *)
(*                  locked.append(id)                                      *)
(*                                                                         *)
(* One Condition (one mutex, one FIFO wait queue) is shared by ALL         *)
(* identifiers of a table and release wakes ONE waiter (notify(), not      *)
(* notify_all()).  A `with cond:` body without wait() is one atomic step   *)
(* (nothing else can run inside the mutex); wait() splits it.              *)
(* Each thread runs a fixed job: claim its identifier, work, release.      *)
(* TLC checks mutual exclusion per identifier, that the list never holds   *)
(* duplicates, absence of deadlock, and (liveness) that every claimer      *)
(* eventually gets its identifier.                                         *)
(***************************************************************************)
EXTENDS Naturals, Sequences, FiniteSets, TLC

CONSTANTS
  \* @type: Set(Str);
  Thread,
  \* @type: Set(Str);
  Id,
  \* @type: Str -> Str;
  Want      \* Want : [Thread -> Id]
ASSUME Want \in [Thread -> Id]

VARIABLES
  \* @type: Seq(Str);
  locked,    \* the locked-identifier list (a sequence, as in the code)
  \* @type: Str;
  mutex,     \* holder of the condition's mutex, or "free"
  \* @type: Seq(Str);
  waitq,     \* FIFO queue of threads blocked in cond.wait()
  \* @type: Str -> Str;
  pc         \* per thread: "claim" "waiting" "woken" "working" "release" "done"

vars == <<locked, mutex, waitq, pc>>
InList(i) == \E k \in DOMAIN locked : locked[k] = i
\* @type: (Seq(Str), Str) => Seq(Str);
Remove(s, i) == LET at == CHOOSE j \in DOMAIN s : s[j] = i
                IN SubSeq(s, 1, at - 1) \o SubSeq(s, at + 1, Len(s))

Init == /\ locked = <<>> /\ mutex = "free" /\ waitq = <<>>
        /\ pc = [t \in Thread |-> "claim"]

\* `with cond:` entered while the identifier is free: append and leave (one atomic step)
ClaimFree(t) ==
  /\ pc[t] = "claim" /\ mutex = "free" /\ ~InList(Want[t])
  /\ locked' = Append(locked, Want[t])
  /\ pc' = [pc EXCEPT ![t] = "working"]
  /\ UNCHANGED <<mutex, waitq>>

\* `with cond:` entered while the identifier is held: wait() releases the mutex
ClaimWait(t) ==
  /\ pc[t] = "claim" /\ mutex = "free" /\ InList(Want[t])
  /\ waitq' = Append(waitq, t)
  /\ pc' = [pc EXCEPT ![t] = "waiting"]
  /\ UNCHANGED <<locked, mutex>>

\* a notified waiter re-acquires the mutex and re-tests its loop condition
Wake(t) ==
  /\ pc[t] = "woken" /\ mutex = "free"
  /\ IF InList(Want[t])
       THEN /\ waitq' = Append(waitq, t) /\ pc' = [pc EXCEPT ![t] = "waiting"]
            /\ UNCHANGED locked
       ELSE /\ locked' = Append(locked, Want[t]) /\ pc' = [pc EXCEPT ![t] = "working"]
            /\ UNCHANGED waitq
  /\ UNCHANGED mutex

Work(t) == pc[t] = "working" /\ pc' = [pc EXCEPT ![t] = "release"] /\ UNCHANGED <<locked, mutex, waitq>>

\* release: remove the identifier, notify ONE waiter (the head of the queue)
Release(t) ==
  /\ pc[t] = "release" /\ mutex = "free"
  /\ locked' = Remove(locked, Want[t])
  /\ IF waitq = <<>>
       THEN waitq' = waitq /\ pc' = [pc EXCEPT ![t] = "done"]
       ELSE waitq' = Tail(waitq)
            /\ pc' = [pc EXCEPT ![t] = "done", ![Head(waitq)] = "woken"]
  /\ UNCHANGED mutex

Next == \E t \in Thread : ClaimFree(t) \/ ClaimWait(t) \/ Wake(t) \/ Work(t) \/ Release(t)
Terminated == \A t \in Thread : pc[t] = "done"
Spec == Init /\ [][Next \/ (Terminated /\ UNCHANGED vars)]_vars
             /\ \A t \in Thread : WF_vars(ClaimFree(t) \/ ClaimWait(t) \/ Wake(t) \/ Work(t) \/ Release(t))

\* safety
MutualExclusion == \A t, u \in Thread :
   (t # u /\ pc[t] \in {"working", "release"} /\ pc[u] \in {"working", "release"}) => Want[t] # Want[u]
NoDuplicates == \A i \in Id : Cardinality({k \in DOMAIN locked : locked[k] = i}) <= 1
ListIsHolders == {locked[k] : k \in DOMAIN locked} = {Want[t] : t \in {u \in Thread : pc[u] \in {"working", "release"}}}
\* a waiter sleeping while its identifier is free and nobody will ever notify again
Stranded == \E t \in Thread : pc[t] = "waiting" /\ ~InList(Want[t])
                               /\ \A u \in Thread : pc[u] \in {"waiting", "done"}
NoStranding == ~Stranded
\* liveness
EveryoneFinishes == <>Terminated

(***************************************************************************)
(* An INDUCTIVE invariant (checked with Apalache, MC_LockApa.tla): it      *)
(* implies MutualExclusion, NoDuplicates and ListIsHolders for every       *)
(* reachable state of any execution, not only the ones TLC enumerated.     *)
(***************************************************************************)
PcStates == {"claim", "waiting", "woken", "working", "release", "done"}
Holders  == {t \in Thread : pc[t] \in {"working", "release"}}
IndInv ==
  /\ mutex = "free"
  /\ \A t \in Thread : pc[t] \in PcStates
  /\ \A i, j \in DOMAIN locked : i # j => locked[i] # locked[j]
  /\ {locked[k] : k \in DOMAIN locked} = {Want[t] : t \in Holders}
  /\ \A t, u \in Holders : t # u => Want[t] # Want[u]
  /\ \A i, j \in DOMAIN waitq : i # j => waitq[i] # waitq[j]
  /\ {waitq[k] : k \in DOMAIN waitq} = {t \in Thread : pc[t] = "waiting"}
=============================================================================
