"""Verdict plumbing: VIOLATION / KNOWN-FINDING lines, replay files, evidence files."""
import json
import os
import sys
import time

VERIF = os.path.dirname(os.path.dirname(os.path.abspath(__file__)))
# (VERIF_SCRATCH_OUT redirects evidence + replays: used only when the checks are exercised
#  against seeded changes in scratch worktrees, never by the registered commands)
_alt = os.environ.get("VERIF_SCRATCH_OUT")
OUT = os.path.join(_alt, "out") if _alt else os.path.join(VERIF, "out")
EVID = os.path.join(_alt, "evidence") if _alt else os.path.join(VERIF, "evidence")
KNOWN = os.path.join(VERIF, "known_findings.json")


def known_findings():
    try:
        with open(KNOWN) as f:
            return json.load(f).get("findings", [])
    except FileNotFoundError:
        return []


def match_known(prop, desc):
    """A violation descriptor matches a listed finding iff every key of the finding's
    `match` object equals the descriptor's value (lists: membership)."""
    for k in known_findings():
        if k.get("status") != "known" or k.get("property") != prop:
            continue
        ok = True
        for key, want in k.get("match", {}).items():
            have = desc.get(key)
            if isinstance(want, list):
                ok = ok and have in want
            else:
                ok = ok and have == want
        if ok:
            return k
    return None


class Verdict:
    def __init__(self, prop, tier, seed, level):
        self.prop, self.tier, self.seed, self.level = prop, tier, seed, level
        self.t0 = time.time()
        self.violations = []      # (descriptor, replay path)
        self.known = {}
        self.drift = 0
        self.notes = []
        self.coverage = {}
        self.assumptions = []
        self.machinery_errors = []
        self.soft_errors = []
        self.also_known_of_clause_property = False
        os.makedirs(os.path.join(OUT, "replays"), exist_ok=True)

    def violation(self, desc, replay_obj):
        k = match_known(self.prop, desc)
        if k is None and self.also_known_of_clause_property:
            # C16: a defect listed for the property a clause belongs to shows up identically
            # in multiprocessing mode; it is the same finding, not a new one
            k = match_known(str(desc.get("clause", "")).split("_")[0], desc)
        if k is not None:
            self.known.setdefault(k["id"], [k, 0])[1] += 1
            return
        n = len(self.violations)
        path = os.path.join(OUT, "replays", "%s-%s-%d.json" % (self.prop, self.tier, n))
        if n < 50:
            with open(path, "w") as f:
                json.dump(replay_obj, f, indent=1, default=str)
        self.violations.append((desc, path))

    def machinery(self, msg):
        self.machinery_errors.append(msg)

    def incomplete(self, msg):
        """The exploration lost coverage (e.g. a schedule prefix did not replay). Violations
        already observed are real executions of the real code and are still reported; with no
        violation the run is a machinery failure (exit 2), never a pass."""
        self.soft_errors.append(msg)

    def finish(self):
        wall = time.time() - self.t0
        cov = dict(self.coverage)
        cov.setdefault("samples", [])
        cov["drift_steps"] = self.drift
        cov["known_findings_seen"] = {k: v[1] for k, v in self.known.items()}
        if self.notes:
            cov["notes"] = self.notes[:40]
        ev = {"property_id": self.prop, "tier": self.tier, "seed": self.seed,
              "level": self.level, "coverage": cov, "assumptions": self.assumptions,
              "wall_s": round(wall, 2), "violations": len(self.violations)}
        if self.machinery_errors or self.soft_errors:
            ev["coverage"]["machinery_errors"] = (self.machinery_errors + self.soft_errors)[:10]
        os.makedirs(EVID, exist_ok=True)
        with open(os.path.join(EVID, self.prop + ".json"), "w") as f:
            json.dump(ev, f, indent=1, default=str)
        for kid, (k, cnt) in sorted(self.known.items()):
            print("KNOWN-FINDING: property=%s %s (%s; seen %d times)"
                  % (self.prop, k["id"], k["what"], cnt))
        if self.drift:
            print("DRIFT property=%s steps=%d (code and model disagree, no clause false)"
                  % (self.prop, self.drift))
        shown = set()
        for desc, path in self.violations:
            key = json.dumps({k: v for k, v in desc.items() if k != "n"}, sort_keys=True)
            if key in shown and len(shown) >= 1 and len(self.violations) > 20:
                continue
            shown.add(key)
            if len(shown) <= 20:
                print("VIOLATION property=%s replay=%s  %s" % (self.prop, path, json.dumps(desc)))
        if self.soft_errors:
            ev_note = "INCOMPLETE" if self.violations else "MACHINERY-ERROR"
            for m in self.soft_errors[:5]:
                print("%s property=%s %s" % (ev_note, self.prop, m))
            if not self.violations and not self.machinery_errors:
                print("RESULT property=%s machinery failure" % self.prop)
                return 2
        if self.machinery_errors:
            for m in self.machinery_errors[:5]:
                print("MACHINERY-ERROR property=%s %s" % (self.prop, m))
            print("RESULT property=%s machinery failure" % self.prop)
            return 2
        if self.violations:
            print("RESULT property=%s violations=%d wall=%.1fs" % (self.prop, len(self.violations), wall))
            return 1
        print("RESULT property=%s ok wall=%.1fs %s" % (
            self.prop, wall, json.dumps({k: v for k, v in cov.items()
                                         if isinstance(v, (int, float, bool))})))
        return 0
