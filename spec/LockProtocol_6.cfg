SPECIFICATION Spec
CONSTANTS
  Thread = {"t1", "t2", "t3", "t4", "t5", "t6"}
  Id = {"x", "y", "z"}
  Want <- Want6
INVARIANT MutualExclusion
INVARIANT NoDuplicates
INVARIANT ListIsHolders
INVARIANT NoStranding
INVARIANT IndInv
PROPERTY EveryoneFinishes
