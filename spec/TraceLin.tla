------------------------------- MODULE TraceLin -------------------------------
(***************************************************************************)
(* code -> spec for CONCURRENT executions of the real FileHashStore.       *)
(*                                                                         *)
(* The harness explores the interleavings of a scenario (a start state and *)
(* one call per thread) under its cooperative scheduler and writes         *)
(*   Obs.outcomes : the distinct terminal outcomes                         *)
(*        [start, calls, results, final, locksLeft, deadlock, blocked]     *)
(*   Obs.states   : the distinct abstract store states seen BETWEEN two    *)
(*                  file-system operations of any execution                *)
(* TLC judges each outcome against the contract: C07 / C12 linearizability *)
(* (some permutation of the calls, run through Apply from the start state, *)
(* gives exactly the observed results and final state), C08 termination    *)
(* and lock hygiene; and each intermediate state against C09.              *)
(***************************************************************************)
EXTENDS HashStoreAPI, Json, IOUtils, TLCExt

Obs == JsonDeserialize(IOEnv.TRACE_FILE)
NO  == Len(Obs.outcomes)
NS  == Len(Obs.states)

VARIABLE k      \* 0 = not started; 1..NO outcomes; NO+1..NO+NS states
Init == k = 0
Next == k = 0 /\ k' \in 1..(NO + NS)
Spec == Init /\ [][Next]_k

IsOutcome == k \in 1..NO
IsState   == k \in (NO + 1)..(NO + NS)
O == Obs.outcomes[k]
S == Obs.states[k - NO].abs

Log(name) == PrintT("VIOL " \o name \o " " \o ToString(k))
Judge(name, ok) == ok \/ Log(name)

(***************************************************************************)
(* Linearizability against Apply                                           *)
(***************************************************************************)
ResMatch(a, r) == a.cls = r.cls /\ a.cid = r.cid /\ a.data = r.data /\ r.truth

RECURSIVE Run(_, _, _, _)
Run(o, s, perm, j) ==
  IF j > Len(perm) THEN s = o.final
  ELSE LET a == Apply(s, o.calls[perm[j]]) IN
       ResMatch(a.res, o.results[perm[j]]) /\ Run(o, a.st, perm, j + 1)

Orders(live) ==
  LET m == Cardinality(live) IN
  {f \in [1..m -> live] : \A x, y \in 1..m : x # y => f[x] # f[y]}

\* the documented extra outcome: a store_object rejected because another
\* in-flight call of the scenario holds the same pid
InProgressOK(o, j) ==
  /\ o.calls[j].op = "store"
  /\ \E i \in 1..Len(o.calls) : i # j /\ o.calls[i].pid = o.calls[j].pid
                               /\ o.calls[i].op \in {"store", "delete"}

Linearizable(o) ==
  LET n    == Len(o.calls)
      live == {j \in 1..n : o.results[j].cls # "inprogress"}
  IN /\ \A j \in (1..n) \ live : InProgressOK(o, j)
     /\ WellFormed(o.start)
     /\ \E perm \in Orders(live) : Run(o, o.start, perm, 1)

I_Linearizable == IsOutcome => (O.deadlock \/ Judge(O.family \o "_Linearizable", Linearizable(O)))
I_NoDeadlock   == IsOutcome => Judge("C08_NoDeadlock",
                      ~O.deadlock /\ \A j \in 1..Len(O.results) : O.results[j].cls # "blocked")
I_NothingLocked == IsOutcome => Judge("C08_NothingLocked",
                      O.deadlock \/ (O.locksLeft = 0 /\ ~O.blocked))

(***************************************************************************)
(* C09 at every intermediate state                                         *)
(***************************************************************************)
Complete(s) ==
  /\ \A c \in Cid : s.obj[c] \in {"absent", "ok"}
  /\ \A p \in Pid : s.pref[p] # Junk
  /\ \A p \in Pid, f \in Fmt : s.doc[p][f] # Junk
I_C09_Complete == IsState => Judge("C09_Complete", Complete(S))

(***************************************************************************)
(* The sequential properties under concurrency.                            *)
(* C01 / C03 / C04 / C05 / C06 / C11 quantify over "whatever calls are made *)
(* in between"; when the calls overlap in time the same promises must hold *)
(* for the observed results and the final state.  Every clause below is    *)
(* implied by linearizability w.r.t. Apply, so it holds whenever           *)
(* I_Linearizable holds; it is reported under the property whose sentence  *)
(* it restates (a change that breaks C04 only under a particular           *)
(* interleaving is a C04 violation, not just a C07 one).                   *)
(***************************************************************************)
NC(o) == Len(o.calls)
Deletes(o, p)  == \E j \in 1..NC(o) : o.calls[j].op = "delete" /\ o.calls[j].pid = p
NDeletes(o, p) == Cardinality({j \in 1..NC(o) : o.calls[j].op = "delete" /\ o.calls[j].pid = p})
RefsIntact(s, p, c) == s.pref[p] = c /\ s.cref[c].has /\ CountIn(p, s.cref[c].pids) = 1
Intact(s, p, c)     == RefsIntact(s, p, c) /\ s.obj[c] = "ok"
BindersOk(o, p) == {j \in 1..NC(o) : /\ o.calls[j].op \in {"store", "tag"}
                                     /\ o.calls[j].pid = p /\ o.results[j].cls = "ok"}
BoundTo(o, p, c) == \* p was bound to the stored object c at the start, or by a successful
  \/ Intact(o.start, p, c)                    \* store_object of the scenario (tag_object binds
  \/ \E j \in BindersOk(o, p) : o.calls[j].c = c /\ o.calls[j].op = "store"   \* absent objects too)

\* C01: "from then until delete_object(pid) every retrieve_object(pid) yields exactly those
\* bytes, whatever calls are made on other pids in between"
ConcStoreStays(o) ==
  \A j \in 1..NC(o) :
    (o.calls[j].op = "store" /\ o.results[j].cls = "ok" /\ ~Deletes(o, o.calls[j].pid))
      => Intact(o.final, o.calls[j].pid, o.calls[j].c)
ConcRetrieve(o) ==
  \A j \in 1..NC(o) :
    (o.calls[j].op = "retrieve" /\ ~Deletes(o, o.calls[j].pid))
      => \A c \in Cid : Intact(o.start, o.calls[j].pid, c)
            => (o.results[j].cls = "ok" /\ o.results[j].data = c /\ o.results[j].truth)

\* C03: one binding per pid until delete_object(pid) has completed
ConcSingleBinding(o) ==
  /\ \A p \in Pid : Cardinality(BindersOk(o, p))
                      <= NDeletes(o, p) + (IF o.start.pref[p] = None THEN 1 ELSE 0)
  /\ \A p \in Pid : \A c \in Cid :
        InSeq(p, o.final.cref[c].pids) => o.final.pref[p] = c
  /\ \A p \in Pid : \A c \in Cid :
        (RefsIntact(o.start, p, c) /\ ~Deletes(o, p)) => RefsIntact(o.final, p, c)

\* C04: while a pid is bound to a cid the object stays
ConcReferencedKept(o) ==
  \A p \in Pid : \A c \in Cid :
    (BoundTo(o, p, c) /\ ~Deletes(o, p)) => Intact(o.final, p, c)

\* C05: bookkeeping exact once every call has completed
RefsConsistent(s) ==
  /\ \A p \in Pid : s.pref[p] \in Cid \cup {None}
  /\ \A c \in Cid :
       IF \E p \in Pid : s.pref[p] = c
         THEN /\ s.cref[c].has
              /\ SeqRange(s.cref[c].pids) = {p \in Pid : s.pref[p] = c}
              /\ \A p \in Pid : CountIn(p, s.cref[c].pids) <= 1
         ELSE s.cref[c] = NoList
  /\ s.junk = 0
ConcRefsExact(o) == RefsConsistent(o.start) => RefsConsistent(o.final)

\* C06: an invalid verdict removes the object only "if nothing references it"
ConcVerdictKeepsReferenced(o) ==
  \A j \in 1..NC(o) :
    o.calls[j].op = "dii" =>
      \A p \in Pid :
        (BoundTo(o, p, o.calls[j].c) /\ ~Deletes(o, p) /\
           (o.start.obj[o.calls[j].c] = "ok" \/
              \E i \in 1..NC(o) : o.calls[i].op \in {"store", "storenp"} /\ o.calls[i].c = o.calls[j].c
                                   /\ o.results[i].cls = "ok"))
          => o.final.obj[o.calls[j].c] = "ok"

\* C11: documents of different (pid, format) pairs never affect one another; a reader of a
\* document nobody deletes gets one of the versions stored for that pair
Touches(call, p, f) ==
  /\ call.pid = p
  /\ \/ call.op = "delete"
     \/ call.op = "delmeta" /\ (call.fmt = NoFmt \/ call.fmt = f)
     \/ call.op = "putmeta" /\ EffFmt(call.fmt) = f
Removes(call, p, f) == Touches(call, p, f) /\ call.op # "putmeta"
ConcDocIsolation(o) ==
  \A p \in Pid, f \in Fmt :
    (\A j \in 1..NC(o) : ~Touches(o.calls[j], p, f)) => o.final.doc[p][f] = o.start.doc[p][f]
ConcDocLastWrite(o) ==
  \A j \in 1..NC(o) :
    (o.calls[j].op = "putmeta" /\ o.results[j].cls = "ok" /\
       \A i \in 1..NC(o) : i # j => ~Touches(o.calls[i], o.calls[j].pid, EffFmt(o.calls[j].fmt)))
      => o.final.doc[o.calls[j].pid][EffFmt(o.calls[j].fmt)] = o.calls[j].ver
ConcDocRetrieve(o) ==
  \A j \in 1..NC(o) :
    LET p == o.calls[j].pid
        f == EffFmt(o.calls[j].fmt) IN
    (o.calls[j].op = "getmeta" /\ o.start.doc[p][f] \in Ver /\
       \A i \in 1..NC(o) : ~Removes(o.calls[i], p, f))
      => /\ o.results[j].cls = "ok" /\ o.results[j].truth
         /\ o.results[j].data \in {o.start.doc[p][f]} \cup
              {o.calls[i].ver : i \in {i \in 1..NC(o) : o.calls[i].op = "putmeta" /\ Touches(o.calls[i], p, f)}}

\* C19: "neither [way] leaves the pid bound or disturbs any object that is referenced" - for
\* the step-wise way the verdict is acted upon by delete_if_invalid_object, for the one-call
\* way by the rejected store_object
BadVal(v) == v \in {"badsum", "badsize"}
ConcRejectedStore(o) ==
  \A j \in 1..NC(o) :
    (o.calls[j].op = "store" /\ BadVal(o.calls[j].val)) =>
      /\ o.results[j].cls \in {"badsum", "badsize", "inprogress", "exists"}
      /\ (o.start.pref[o.calls[j].pid] = None /\ Cardinality(BindersOk(o, o.calls[j].pid)) = 0)
            => o.final.pref[o.calls[j].pid] = None
      /\ \A p \in Pid : (BoundTo(o, p, o.calls[j].c) /\ ~Deletes(o, p)) => Intact(o.final, p, o.calls[j].c)

Quiet == IsOutcome /\ ~O.deadlock
I_C19_Conc == Quiet => Judge("C19_ConcReferencedUndisturbed",
                             ConcVerdictKeepsReferenced(O) /\ ConcRejectedStore(O))
I_C01_Conc == Quiet => /\ Judge("C01_ConcStoreStays", ConcStoreStays(O))
                       /\ Judge("C01_ConcRetrieve", ConcRetrieve(O))
I_C03_Conc == Quiet => Judge("C03_ConcSingleBinding", ConcSingleBinding(O))
I_C04_Conc == Quiet => Judge("C04_ConcReferencedKept", ConcReferencedKept(O))
I_C05_Conc == Quiet => Judge("C05_ConcRefsExact", ConcRefsExact(O))
I_C06_Conc == Quiet => Judge("C06_ConcVerdictKeepsReferenced", ConcVerdictKeepsReferenced(O))
I_C11_Conc == Quiet => /\ Judge("C11_ConcDocIsolation", ConcDocIsolation(O))
                       /\ Judge("C11_ConcDocLastWrite", ConcDocLastWrite(O))
                       /\ Judge("C11_ConcDocRetrieve", ConcDocRetrieve(O))
\* C07 / C12: an execution in which some call never returns has no outcome that a sequential
\* order could equal
I_EveryCallReturns == IsOutcome => Judge(O.family \o "_EveryCallReturns", ~O.deadlock)

AllJudged == PrintT("JUDGED " \o ToString(TLCGet("stats").distinct - 1) \o " OF " \o ToString(NO + NS))
=============================================================================
