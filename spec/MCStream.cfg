SPECIFICATION Spec
CHECK_DEADLOCK FALSE
INVARIANT Tiling
INVARIANT WholeContent
INVARIANT PositionRestored
