"""Thin helpers around TLC: run a cfg, collect PrintT lines, state/transition counts."""
import json
import os
import re
import shutil
import subprocess
import tempfile
import time

SPEC = os.path.join(os.path.dirname(os.path.dirname(os.path.abspath(__file__))), "spec")
JAR = "/opt/veriftools/tla/tla2tools.jar:/opt/veriftools/tla/CommunityModules-deps.jar"


def scratch_root():
    base = "/dev/shm" if os.path.isdir("/dev/shm") and os.access("/dev/shm", os.W_OK) \
        else tempfile.gettempdir()
    d = os.path.join(base, "hsverif.%d" % os.getpid())
    os.makedirs(d, exist_ok=True)
    return d


def tla_set(xs):
    return "{" + ", ".join(json.dumps(x) for x in xs) + "}"


class TLCResult:
    def __init__(self, out, rc, wall):
        self.out, self.rc, self.wall = out, rc, wall
        m = re.search(r"(\d+) states generated, (\d+) distinct states found", out)
        self.generated = int(m.group(1)) if m else 0
        self.distinct = int(m.group(2)) if m else 0
        m = re.search(r"depth of the complete state graph search is (\d+)", out)
        self.depth = int(m.group(1)) if m else 0
        self.violated = re.findall(r"Invariant (\S+) is violated", out)
        self.errors = [l for l in out.splitlines() if l.startswith("Error:")]
        self.ok = (rc == 0 and not self.errors)

    def printed(self, prefix):
        """Lines printed by PrintT("<prefix> ...") (TLC wraps them in quotes)."""
        res = []
        for l in self.out.splitlines():
            if l.startswith('"' + prefix + " "):
                try:
                    res.append(json.loads(l)[len(prefix) + 1:])
                except Exception:  # noqa
                    res.append(l[len(prefix) + 2:-1])
        return res


def run_tlc(module, cfg_text=None, cfg_file=None, workers=16, env=None, timeout=3600,
            extra=(), simulate=None, heap="8g"):
    """Run TLC on spec/<module>.tla with the given cfg (text or file name in spec/)."""
    work = tempfile.mkdtemp(prefix="tlc.", dir=scratch_root())
    try:
        if cfg_text is not None:
            cfg_path = os.path.join(work, "run.cfg")
            with open(cfg_path, "w") as f:
                f.write(cfg_text)
        else:
            cfg_path = os.path.join(SPEC, cfg_file)
        cmd = ["java", "-XX:+UseParallelGC", "-Xmx" + heap, "-cp", JAR, "tlc2.TLC",
               "-workers", str(workers), "-metadir", os.path.join(work, "meta"),
               "-noGenerateSpecTE", "-config", cfg_path]
        if simulate:
            cmd += ["-simulate", simulate]
        cmd += list(extra) + [module + ".tla"]
        e = dict(os.environ)
        if env:
            e.update(env)
        t0 = time.time()
        p = subprocess.run(cmd, cwd=SPEC, env=e, stdout=subprocess.PIPE,
                           stderr=subprocess.STDOUT, timeout=timeout, text=True)
        return TLCResult(p.stdout, p.returncode, time.time() - t0)
    finally:
        shutil.rmtree(work, ignore_errors=True)


def consts_block(consts):
    return "CONSTANTS\n" + "".join("  %s = %s\n" % (k, tla_set(v)) for k, v in consts.items())


def fill_template(name, consts):
    txt = open(os.path.join(SPEC, name)).read()
    for k, v in consts.items():
        txt = txt.replace("@%s@" % k, tla_set(v))
    return txt


def nonull(x):
    """JSON null is not a TLA+ value: replace None by "-" everywhere."""
    if x is None:
        return "-"
    if isinstance(x, dict):
        return {k: nonull(v) for k, v in x.items()}
    if isinstance(x, (list, tuple)):
        return [nonull(v) for v in x]
    return x
