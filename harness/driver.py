"""Drive the real FileHashStore with abstract calls and abstract its answers.

No property logic lives here: a call record (the spec's Call(...)) is turned into the
concrete API call, the outcome is classified into the spec's result classes, and the
payload is labelled with abstract names.  Byte-level truth (digest values, sizes, bytes)
is established against hashlib / the catalogue of contents and reported in `truth`.
"""
import hashlib
import io
import logging
import os
import sys

from . import absfn
from .ids import DEFAULT5


def load_hashstore():
    """Import hashstore from /repo's CURRENT working tree (or $HASHSTORE_SRC)."""
    src = os.environ.get("HASHSTORE_SRC", "/repo/src")
    if src not in sys.path:
        sys.path.insert(0, src)
    import hashstore.filehashstore as fhs  # noqa
    import hashstore.filehashstore_exceptions as exc  # noqa
    assert os.path.realpath(fhs.__file__).startswith(os.path.realpath(src)), fhs.__file__
    logging.disable(logging.CRITICAL)
    return fhs, exc


EXC_CLASS = {
    "HashStoreRefsAlreadyExists": "exists", "PidRefsAlreadyExistsError": "exists",
    "NonMatchingObjSize": "badsize", "NonMatchingChecksum": "badsum",
    "PidRefsDoesNotExist": "nopid",
    "OrphanPidRefsFileFound": "inconsistent", "PidNotFoundInCidRefsFile": "inconsistent",
    "RefsFileExistsButCidObjMissing": "inconsistent",
    "UnsupportedAlgorithm": "unsupported",
    "StoreObjectForPidAlreadyInProgress": "inprogress",
}


def classify(e, op):
    n = type(e).__name__
    if n in EXC_CLASS:
        return EXC_CLASS[n]
    if op == "getmeta" and isinstance(e, FileNotFoundError):
        return "notfound"      # the document vanished between probe and open: still "not found"
    if isinstance(e, ValueError):
        return "notfound" if op == "getmeta" else "badvalue"
    if isinstance(e, TypeError):
        return "badtype"
    if isinstance(e, OSError):
        return "ioerror"
    return "other:" + n


def res(cls, cid="-", data="-", truth=True, **kw):
    r = {"cls": cls, "cid": cid, "data": data, "truth": bool(truth)}
    r.update(kw)
    return r


def make_store(fhs, props, mode=None):
    """FileHashStore(props); mode (or $HSVERIF_MODE) == "mp": USE_MULTIPROCESSING=True with the
    multiprocessing primitives replaced by in-process stand-ins (the `_mp` code paths run,
    no Manager processes are spawned); "mp-real": the real multiprocessing primitives."""
    mode = mode or os.environ.get("HSVERIF_MODE", "th")
    if mode == "th":
        os.environ.pop("USE_MULTIPROCESSING", None)
        return fhs.FileHashStore(props)
    old = os.environ.get("USE_MULTIPROCESSING")
    os.environ["USE_MULTIPROCESSING"] = "True"
    try:
        if mode == "mp":
            from . import sched
            with sched.patched_primitives():
                return fhs.FileHashStore(props)
        return fhs.FileHashStore(props)
    finally:
        if old is None:
            os.environ.pop("USE_MULTIPROCESSING", None)
        else:
            os.environ["USE_MULTIPROCESSING"] = old


class Driver:
    def __init__(self, inst, root, inputs, fhs=None, store=None):
        self.inst, self.root, self.inputs = inst, root, inputs
        if fhs is None:
            fhs, _ = load_hashstore()
        self.fhs = fhs
        self.store = store if store is not None else make_store(fhs, inst.props(root))
        self.notes = []

    # ---- payload abstraction -------------------------------------------------
    def _check_object_metadata(self, om, c, expect_keys=None):
        inst = self.inst
        ok = True
        if om.cid != inst.cid[c]:
            ok = False
            self.notes.append("cid %s != digest" % om.cid)
        if om.obj_size != len(inst.content[c]):
            ok = False
            self.notes.append("size %r != %d" % (om.obj_size, len(inst.content[c])))
        keys = set(om.hex_digests)
        want = set(expect_keys or DEFAULT5)
        if keys != want:
            ok = False
            self.notes.append("digest keys %s != %s" % (sorted(keys), sorted(want)))
        for k, v in om.hex_digests.items():
            try:
                if v != inst.digest(c, k):
                    ok = False
                    self.notes.append("digest %s wrong" % k)
            except Exception:  # noqa
                ok = False
        cid_abs = inst.cid_rev.get(om.cid, "junk")
        return res("ok", cid_abs, cid_abs, ok)

    def object_metadata(self, c):
        inst = self.inst
        return self.fhs.ObjectMetadata(
            None, inst.cid[c], len(inst.content[c]),
            {a: inst.digest(c, a) for a in DEFAULT5})

    def val_args(self, c, val):
        inst = self.inst
        good = inst.digest(c, "sha256")
        size = len(inst.content[c])
        if val in ("none", "-"):
            return None, None, None
        if val == "good":
            return good, "SHA-256", size
        if val == "badsum":
            return hashlib.sha256(b"not the content").hexdigest(), "SHA-256", size
        if val == "badsize":
            return good, "SHA-256", size + 1
        raise ValueError(val)

    # ---- one abstract call -----------------------------------------------------
    def call(self, call):
        op = call["op"]
        inst, s = self.inst, self.store
        self.notes = []
        try:
            if op == "store":
                ck, alg, size = self.val_args(call["c"], call["val"])
                om = s.store_object(inst.pid[call["pid"]], self.inputs[("c", call["c"])],
                                    None, ck, alg, size)
                return self._check_object_metadata(om, call["c"])
            if op == "storenp":
                om = s.store_object(None, self.inputs[("c", call["c"])])
                return self._check_object_metadata(om, call["c"])
            if op == "tag":
                s.tag_object(inst.pid[call["pid"]], inst.cid[call["c"]])
                return res("ok")
            if op == "delete":
                s.delete_object(inst.pid[call["pid"]])
                return res("ok")
            if op == "dii":
                c = call["c"]
                ck, alg, size = self.val_args(c, call["val"])
                s.delete_if_invalid_object(self.object_metadata(c), ck, "sha256", size)
                return res("ok")
            if op == "retrieve":
                f = s.retrieve_object(inst.pid[call["pid"]])
                try:
                    data = f.read()
                finally:
                    f.close()
                c = inst.content_rev.get(hashlib.sha256(data).hexdigest(), "junk")
                return res("ok", c, c, True)
            if op == "hex":
                p = call["pid"]
                d = s.get_hex_digest(inst.pid[p], "SHA-256")
                c = "junk"
                for k in inst.content:
                    if inst.digest(k, "sha256") == d:
                        c = k
                return res("ok", c, c, True)
            if op == "putmeta":
                fmt = None if call["fmt"] == "nofmt" else inst.fmt[call["fmt"]]
                r = s.store_metadata(inst.pid[call["pid"]], self.inputs[("v", call["ver"])], fmt)
                return res("ok", truth=isinstance(r, str))
            if op == "getmeta":
                fmt = None if call["fmt"] == "nofmt" else inst.fmt[call["fmt"]]
                f = s.retrieve_metadata(inst.pid[call["pid"]], fmt)
                try:
                    data = f.read()
                finally:
                    f.close()
                v = inst.ver_rev.get(hashlib.sha256(data).hexdigest(), "junk")
                return res("ok", "-", v, True)
            if op == "delmeta":
                fmt = None if call["fmt"] == "nofmt" else inst.fmt[call["fmt"]]
                s.delete_metadata(inst.pid[call["pid"]], fmt)
                return res("ok")
            if op == "bad":
                from .badcalls import run_bad
                run_bad(self, call["val"])
                return res("ok")      # an invalid call that was accepted
            raise AssertionError("unknown op " + op)
        except AssertionError:
            raise
        except BaseException as e:  # noqa
            if isinstance(e, (KeyboardInterrupt, SystemExit)):
                raise
            kind_op = "getmeta" if (op == "bad" and call["val"] == "getmeta_unknown") else op
            return res(classify(e, kind_op), err=type(e).__name__)

    def abstract(self):
        return absfn.abstract(self.root, self.inst)
