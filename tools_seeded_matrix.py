#!/usr/bin/env python3
"""Run quick checks against every confirmed seeded change in a scratch worktree
(HASHSTORE_SRC points the harness at it; /repo is not touched). Writes /tmp/mut/matrix.json."""
import json, os, subprocess, sys, glob, shutil

RELATED = {  # property -> checks to try (own check first)
 "C01": ["C01", "C10", "C09", "C07", "C04", "C18"], "C02": ["C02"], "C03": ["C03", "C07", "C13", "C18"], "C04": ["C04", "C07", "C18", "C13"],
 "C05": ["C05", "C06"], "C06": ["C06", "C07"], "C07": ["C07", "C08"], "C08": ["C08"], "C09": ["C09", "C12"],
 "C10": ["C10"], "C11": ["C11", "C09", "C13"], "C12": ["C12", "C09"], "C13": ["C13", "C09"], "C14": ["C14"],
 "C15": ["C15"], "C16": ["C16"], "C17": ["C17"], "C18": ["C18", "C04"], "C19": ["C19", "C06"], "C20": ["C20"]}
ROOT = os.environ.get("MUTROOT", "/tmp/mut")
conf = json.load(open(sys.argv[1] if len(sys.argv) > 1 else "/tmp/mut/confirm.json"))
out = {}
if os.path.exists(ROOT + "/matrix.json"):
    out = json.load(open(ROOT + "/matrix.json"))
for mid, c in sorted(conf.items()):
    if not c.get("ok") or mid in out:
        continue
    prop = mid.split("/")[0]
    wt = "/tmp/wtm/" + mid.replace("/", "_")
    subprocess.run("git -C /repo worktree remove --force %s" % wt, shell=True, capture_output=True)
    shutil.rmtree(wt, ignore_errors=True)
    subprocess.run("git -C /repo worktree add -q --detach %s HEAD" % wt, shell=True, check=True)
    r = subprocess.run("git apply %s/%s/patch.diff || patch -p1 -s --fuzz=3 < %s/%s/patch.diff" % (ROOT, mid, ROOT, mid), shell=True, cwd=wt, capture_output=True, text=True)
    applied = subprocess.run("git diff --quiet", shell=True, cwd=wt).returncode != 0
    res = {}
    if not applied:
        out[mid] = {"_error": {"rc": 2, "violations": 0, "first": "patch did not apply", "drift": False}}
        continue
    env = dict(os.environ, HASHSTORE_SRC=wt + "/src", VERIF_SCRATCH_OUT="/tmp/wtm/out_" + mid.replace("/", "_"), VERIF_NOCACHE="1")
    for chk in RELATED[prop]:
        p = subprocess.run(["./check", chk, "--tier", "quick"], cwd="/verif", env=env, capture_output=True, text=True, timeout=3600)
        viol = [l for l in p.stdout.splitlines() if l.startswith("VIOLATION")]
        res[chk] = {"rc": p.returncode, "violations": len(viol), "first": viol[0][:300] if viol else "",
                    "drift": any(l.startswith("DRIFT") for l in p.stdout.splitlines())}
        if viol:
            break
    out[mid] = res
    subprocess.run("git -C /repo worktree remove --force %s" % wt, shell=True, capture_output=True)
    shutil.rmtree(wt, ignore_errors=True)
    shutil.rmtree(env["VERIF_SCRATCH_OUT"], ignore_errors=True)
    print(mid, {k: (v["rc"], v["violations"]) for k, v in res.items()}, flush=True)
    json.dump(out, open(ROOT + "/matrix.json", "w"), indent=1)
