"""Concrete spelling of the specification's invalid-argument call templates (BadKinds).

Every template names one public method and its bad parameter(s); all other parameters
are valid.  The pid used where a *valid* pid is needed is one the abstraction does not
know ("scratch"), so that if a call is wrongly accepted its effects show up as junk.
The expected error classes live in the specification (BadClass), not here.
"""
import io

SCRATCH_PID = "urn:scratch:never-bound"
UNKNOWN_PID = "urn:unknown:pid"


def table(d):
    s, inst = d.store, d.inst
    path_a = d.inputs[("c", sorted(inst.content)[0])]
    c0 = sorted(inst.content)[0]
    ver0 = d.inputs[("v", sorted(inst.ver)[0])]
    cid0 = inst.cid[c0]
    sha = inst.digest(c0, "sha256")
    wrong = "0" * 64
    size = len(inst.content[c0])
    om = d.object_metadata(c0)
    P = SCRATCH_PID
    return {
        "store_pid_empty": lambda: s.store_object("", path_a),
        "store_pid_space": lambda: s.store_object("a pid", path_a),
        "store_pid_tab": lambda: s.store_object("a\tpid", path_a),
        "store_pid_nl": lambda: s.store_object("apid\n", path_a),
        "store_data_none": lambda: s.store_object(P, None),
        "store_data_emptystr": lambda: s.store_object(P, "  "),
        "store_data_int": lambda: s.store_object(P, 42),
        "store_data_bytes": lambda: s.store_object(P, b"raw bytes"),
        "store_data_textstream": lambda: s.store_object(P, io.StringIO("text stream")),
        "store_data_rawio": lambda: _with_raw(path_a, lambda f: s.store_object(P, f)),
        "store_data_list": lambda: s.store_object(P, [path_a]),
        "store_algo_unsupported": lambda: s.store_object(P, path_a, "crc32"),
        "store_sumalgo_unsupported": lambda: s.store_object(P, path_a, None, sha, "sm3"),
        "store_sum_without_algo": lambda: s.store_object(P, path_a, None, sha, None),
        "store_algo_without_sum": lambda: s.store_object(P, path_a, None, None, "sha256"),
        "store_sum_empty": lambda: s.store_object(P, path_a, None, "", "sha256"),
        "store_size_zero": lambda: s.store_object(P, path_a, None, None, None, 0),
        "store_size_negative": lambda: s.store_object(P, path_a, None, None, None, -1),
        "store_size_str": lambda: s.store_object(P, path_a, None, None, None, str(size)),
        "store_size_float": lambda: s.store_object(P, path_a, None, None, None, float(size)),
        "store_pid_empty_size_zero": lambda: s.store_object("", path_a, None, None, None, 0),
        "store_algo_unsupported_size_str":
            lambda: s.store_object(P, path_a, "crc32", None, None, str(size)),
        "store_data_none_sum_without_algo": lambda: s.store_object(P, None, None, sha, None),
        "storenp_data_int": lambda: s.store_object(None, 42),
        "storenp_data_emptystr": lambda: s.store_object(None, ""),
        "tag_pid_none": lambda: s.tag_object(None, cid0),
        "tag_pid_empty": lambda: s.tag_object("", cid0),
        "tag_pid_space": lambda: s.tag_object("a pid", cid0),
        "tag_cid_none": lambda: s.tag_object(P, None),
        "tag_cid_empty": lambda: s.tag_object(P, ""),
        "tag_cid_space": lambda: s.tag_object(P, cid0[:8] + " " + cid0[8:]),
        "tag_pid_none_cid_none": lambda: s.tag_object(None, None),
        "retrieve_pid_none": lambda: s.retrieve_object(None),
        "retrieve_pid_empty": lambda: s.retrieve_object(""),
        "retrieve_pid_space": lambda: s.retrieve_object("a pid"),
        "retrieve_unknown": lambda: s.retrieve_object(UNKNOWN_PID),
        "delete_pid_none": lambda: s.delete_object(None),
        "delete_pid_empty": lambda: s.delete_object(""),
        "delete_pid_space": lambda: s.delete_object(" apid"),
        "delete_unknown": lambda: s.delete_object(UNKNOWN_PID),
        "hex_pid_none": lambda: s.get_hex_digest(None, "sha256"),
        "hex_pid_empty": lambda: s.get_hex_digest("", "sha256"),
        "hex_algo_none": lambda: s.get_hex_digest(P, None),
        "hex_algo_empty": lambda: s.get_hex_digest(P, ""),
        "hex_algo_unsupported": lambda: s.get_hex_digest(UNKNOWN_PID, "crc32"),
        "hex_unknown": lambda: s.get_hex_digest(UNKNOWN_PID, "sha256"),
        "dii_meta_none": lambda: s.delete_if_invalid_object(None, sha, "sha256", size),
        "dii_meta_wrongtype":
            lambda: s.delete_if_invalid_object({"cid": cid0}, sha, "sha256", size),
        "dii_sum_none": lambda: s.delete_if_invalid_object(om, None, "sha256", size),
        "dii_sum_empty": lambda: s.delete_if_invalid_object(om, "", "sha256", size),
        "dii_algo_none": lambda: s.delete_if_invalid_object(om, sha, None, size),
        "dii_algo_unsupported": lambda: s.delete_if_invalid_object(om, sha, "crc32", size),
        "dii_size_zero": lambda: s.delete_if_invalid_object(om, sha, "sha256", 0),
        "dii_size_str": lambda: s.delete_if_invalid_object(om, sha, "sha256", str(size)),
        "dii_meta_none_size_zero": lambda: s.delete_if_invalid_object(None, sha, "sha256", 0),
        "putmeta_pid_none": lambda: s.store_metadata(None, ver0),
        "putmeta_pid_empty": lambda: s.store_metadata("", ver0),
        "putmeta_pid_space": lambda: s.store_metadata("a pid", ver0),
        "putmeta_data_none": lambda: s.store_metadata(P, None),
        "putmeta_data_emptystr": lambda: s.store_metadata(P, ""),
        "putmeta_data_int": lambda: s.store_metadata(P, 7),
        "putmeta_data_textstream": lambda: s.store_metadata(P, io.StringIO("<x/>")),
        "putmeta_fmt_space": lambda: s.store_metadata(P, ver0, "  "),
        "putmeta_pid_none_data_none": lambda: s.store_metadata(None, None),
        "getmeta_pid_none": lambda: s.retrieve_metadata(None),
        "getmeta_pid_empty": lambda: s.retrieve_metadata(""),
        "getmeta_fmt_space": lambda: s.retrieve_metadata(P, " "),
        "getmeta_unknown": lambda: s.retrieve_metadata(UNKNOWN_PID),
        "delmeta_pid_none": lambda: s.delete_metadata(None),
        "delmeta_pid_empty": lambda: s.delete_metadata(""),
        "delmeta_fmt_space": lambda: s.delete_metadata(P, "  "),
        "store_sum_empty_no_algo": lambda: s.store_object(P, path_a, None, "", None),
        "store_sum_empty_algo_empty": lambda: s.store_object(P, path_a, None, "", ""),
        "store_algo_empty_no_sum": lambda: s.store_object(P, path_a, None, None, ""),
        "store_sum_space": lambda: s.store_object(P, path_a, None, " ", "sha256"),
        "dii_algo_empty": lambda: s.delete_if_invalid_object(om, sha, "", size),
        "dii_size_negative": lambda: s.delete_if_invalid_object(om, sha, "sha256", -5),
        "putmeta_fmt_nl": lambda: s.store_metadata(P, ver0, "\n"),
        "store_sumalgo_unsupported_size_wrong":
            lambda: s.store_object(P, path_a, None, sha, "sm3", size + 1),
        "store_algo_unsupported_sum_wrong":
            lambda: s.store_object(P, path_a, "crc32", wrong, "sha256"),
        "dii_algo_unsupported_size_wrong":
            lambda: s.delete_if_invalid_object(om, sha, "crc32", size + 1),
        "dii_algo_unsupported_sum_wrong":
            lambda: s.delete_if_invalid_object(om, wrong, "crc32", size),
        "dii_sum_space_size_wrong":
            lambda: s.delete_if_invalid_object(om, "ab cd", "sha256", size + 1),
    }


def _with_raw(path, fn):
    f = open(path, "rb", buffering=0)
    try:
        return fn(f)
    finally:
        f.close()


def kinds(d):
    return sorted(table(d))


def run_bad(d, kind):
    t = table(d)
    if kind not in t:
        raise AssertionError("no concrete spelling for bad-call template " + kind)
    r = t[kind]()
    if hasattr(r, "close"):
        r.close()
    return r
