---------------------------- MODULE FileHashStore ----------------------------
(***************************************************************************)
(* Layer 2b - the IMPLEMENTATION-SHAPED model of FileHashStore's object    *)
(* operations: one PlusCal label per operation on shared state, i.e. per    *)
(* file-system operation on a permanent path (or its *_delete marker) and   *)
(* per `with condition:` section on a lock table, in the order              *)
(* src/hashstore/filehashstore.py performs them, with its real branch       *)
(* structure: the dedup probe before publishing, the four-way reference     *)
(* split of _store_hashstore_refs_files, _find_object's classification,     *)
(* delete_object's branches, _delete_object_only.                           *)
(*                                                                         *)
(* Shared state = the abstract store of HSTypes plus deletion markers and   *)
(* the four locked-identifier lists with their wait queues.  Operations on  *)
(* a thread's own staged tmp file and directory creation are local and do   *)
(* not appear.  Reading a small file is one step (its content is what it    *)
(* was when it was opened).                                                 *)
(*                                                                         *)
(* Every step records the event it stands for in `ev`; TraceSteps uses it   *)
(* to validate event traces recorded from the real code against this model. *)
(* TLC checks on this model: deadlock freedom, lock hygiene, C09 (objects   *)
(* appear and disappear by one rename) and linearizability against the      *)
(* contract Apply (MCImpl.tla).                                             *)
(***************************************************************************)
EXTENDS HashStoreAPI, TLC

CONSTANTS Thread,      \* thread ids
          Job,         \* [Thread -> call record] one API call per thread
          Start        \* abstract store state the scenario starts from

Tables == {"objpid", "cid", "doc", "refpid"}
LockOf(tbl) == CASE tbl = "objpid" -> "L1" [] tbl = "cid" -> "L2" [] OTHER -> "L3"
NoPath == <<"-", "-">>
NoEv == [n |-> 0, t |-> "-", op |-> "init", a |-> NoPath, b |-> NoPath, out |-> "-", val |-> <<>>]
P(kind, name) == <<kind, name>>                 \* a path class
FN(b) == IF b THEN "F" ELSE "N"                 \* stat outcome

(* --algorithm FileHashStore {
variables
  obj  = Start.obj, pref = Start.pref, cref = Start.cref, doc = Start.doc,
  mark = {},                                   \* existing *_delete markers (path classes)
  keep = [vcc \in Cid |-> <<>>],                 \* content of va cid list that was renamed to its marker
  locked = [vtbl \in Tables |-> <<>>],
  waitq  = [vtbl \in Tables |-> <<>>],
  woken  = {},
  ev = NoEv,
  result = [proc \in Thread |-> "-"],
  rdata  = [proc \in Thread |-> "-"];          \* payload of a result (content / version name)

define {
  \* an event: thread, operation, path class(es), outcome (a string) and the value read (a
    \* sequence: <<cid>> for a pid reference, the pid lines for a cid reference list)
  EvV(t, op, a, b, out, val) == [n |-> ev.n + 1, t |-> t, op |-> op, a |-> a, b |-> b, out |-> out, val |-> val]
  Ev(t, op, a, b, out) == EvV(t, op, a, b, out, <<>>)
  StatCid(cc_) == IF ~cref[cc_].has THEN "N" ELSE IF cref[cc_].pids = <<>> THEN "F0" ELSE "F"
  InL(vtbl, vi)  == InSeq(vi, locked[vtbl])
  Here(kind, pp, g) == IF kind = "doc" THEN doc[pp][g] # None ELSE P(kind, pp \o "/" \o g) \in mark
  NextKind(kind) == CASE kind = "doc" -> "docdel" [] kind = "docdel" -> "docdel2" [] OTHER -> "docdel3"
  Suffix(kind) == CASE kind = "doc" -> "" [] kind = "docdel" -> "_delete" [] OTHER -> "_delete_delete"
  AllDone     == \A proc \in Thread : pc[proc] = "Done"
  Abs         == [obj |-> obj, pref |-> pref, cref |-> cref, doc |-> doc,
                  junk |-> Cardinality(mark)]
}

\* ---- identifier claim / release: one atomic `with cond:` section each ---------------
procedure claim(vtb, vid) {
 cl1: if (InL(vtb, vid)) {
        waitq[vtb] := Append(waitq[vtb], self);
        ev := Ev(self, "sec", <<"lock", LockOf(vtb)>>, NoPath, "wait");
 cl2:   await self \in woken;
        woken := woken \ {self};
        if (InL(vtb, vid)) {
          waitq[vtb] := Append(waitq[vtb], self);
          ev := Ev(self, "wakeup", <<"table", vtb>>, NoPath, "wait");
          goto cl2;
        } else {
          locked[vtb] := Append(locked[vtb], vid);
          ev := Ev(self, "wakeup", <<"table", vtb>>, NoPath, "claim");
        }
      } else {
        locked[vtb] := Append(locked[vtb], vid);
        ev := Ev(self, "sec", <<"lock", LockOf(vtb)>>, NoPath, "claim");
      };
 cl3: return;
}
procedure release(vtb, vid) {
 rl1: locked[vtb] := Without(locked[vtb], vid);
      ev := Ev(self, "sec", <<"lock", LockOf(vtb)>>, NoPath, "release");
      if (waitq[vtb] # <<>>) {
        woken := woken \cup {Head(waitq[vtb])};
        waitq[vtb] := Tail(waitq[vtb]);
      };
      return;
}

\* ---- _store_hashstore_refs_files(vp, vc): tag under the reference-pid and cid claims ----
procedure tag(vp, vc)
  variables va = FALSE, vb = FALSE, vout = "ok", vmade = FALSE, vrp = None, vrl = <<>>; {
 tg1: call claim("refpid", vp);
 tg2: call claim("cid", vc);
      \* if isfile(pid) and isfile(cid)
 e1a: va := pref[vp] # None; ev := Ev(self, "stat", P("pidref", vp), NoPath, FN(va));
      if (va) {
 e1b:   vb := cref[vc].has; ev := Ev(self, "stat", P("cidref", vc), NoPath, StatCid(vc));
        if (vb) { goto both; };
      };
      \* elif isfile(pid) and not isfile(cid)
 e2a: va := pref[vp] # None; ev := Ev(self, "stat", P("pidref", vp), NoPath, FN(va));
      if (va) {
 e2b:   vb := cref[vc].has; ev := Ev(self, "stat", P("cidref", vc), NoPath, StatCid(vc));
        if (~vb) { vout := "exists"; goto tgfin; };
      };
      \* elif not isfile(pid) and isfile(cid)
 e3a: va := pref[vp] # None; ev := Ev(self, "stat", P("pidref", vp), NoPath, FN(va));
      if (~va) {
 e3b:   vb := cref[vc].has; ev := Ev(self, "stat", P("cidref", vc), NoPath, StatCid(vc));
        if (vb) { goto cidonly; };
      };
      \* neither: stage both, move pid ref then cid refs (shutil.move stats its destination)
 n1:  vmade := TRUE; ev := Ev(self, "stat", P("pidref", vp), NoPath, FN(pref[vp] # None));
 n2:  pref[vp] := vc; ev := Ev(self, "rename", P("tmp", "refs"), P("pidref", vp), "ok");
 n3:  ev := Ev(self, "stat", P("cidref", vc), NoPath, StatCid(vc));
 n4:  cref[vc] := List(<<vp>>); ev := Ev(self, "rename", P("tmp", "refs"), P("cidref", vc), "ok");
      goto verify;
 cidonly:
      vmade := TRUE; ev := Ev(self, "stat", P("pidref", vp), NoPath, FN(pref[vp] # None));
 c2:  pref[vp] := vc; ev := Ev(self, "rename", P("tmp", "refs"), P("pidref", vp), "ok");
      \* if not _is_string_in_refs_file(pid, cid_refs): _update_refs_file(add)
 c3:  if (~cref[vc].has) { vout := "ioerror"; ev := Ev(self, "read", P("cidref", vc), NoPath, "!fnf"); goto untag; }
      else { vrl := cref[vc].pids; ev := EvV(self, "read", P("cidref", vc), NoPath, "ok", vrl); };
 c4:  if (~InSeq(vp, vrl)) {
        vb := cref[vc].has; ev := Ev(self, "stat", P("cidref", vc), NoPath, StatCid(vc));
        if (~vb) { vout := "ioerror"; goto untag; };
 c5:    if (~cref[vc].has) { vout := "ioerror"; ev := Ev(self, "read", P("cidref", vc), NoPath, "!fnf"); goto untag; }
        else { vrl := cref[vc].pids; ev := EvV(self, "read", P("cidref", vc), NoPath, "ok", vrl); };
 c6:    if (~InSeq(vp, vrl)) {
          if (~cref[vc].has) { vout := "ioerror"; ev := Ev(self, "append", P("cidref", vc), NoPath, "!fnf"); goto untag; }
          else { cref[vc] := List(Append(cref[vc].pids, vp)); ev := Ev(self, "append", P("cidref", vc), NoPath, "ok"); };
        };
      };
 c7:  goto verify;
 both:
      vout := "exists";
 verify:  \* _verify_hashstore_references
      va := pref[vp] # None; ev := Ev(self, "stat", P("pidref", vp), NoPath, FN(va));
      if (~va) { if (vout = "ok") { vout := "other"; goto untag; } else { goto tgfin; } };
 v2:  vb := cref[vc].has; ev := Ev(self, "stat", P("cidref", vc), NoPath, StatCid(vc));
      if (~vb) { if (vout = "ok") { vout := "other"; goto untag; } else { goto tgfin; } };
 v3:  if (pref[vp] = None) { ev := Ev(self, "read", P("pidref", vp), NoPath, "!fnf");
                            if (vout = "ok") { vout := "ioerror"; goto untag; } else { goto tgfin; } }
      else { vrp := pref[vp]; ev := EvV(self, "read", P("pidref", vp), NoPath, "ok", <<vrp>>); };
 v3b: if (vrp # vc) { if (vout = "ok") { vout := "other"; goto untag; } else { goto tgfin; } };
 v4:  if (~cref[vc].has) { ev := Ev(self, "read", P("cidref", vc), NoPath, "!fnf");
                          if (vout = "ok") { vout := "ioerror"; goto untag; } else { goto tgfin; } }
      else { vrl := cref[vc].pids; ev := EvV(self, "read", P("cidref", vc), NoPath, "ok", vrl); };
 v4b: if (~InSeq(vp, vrl) /\ vout = "ok") { vout := "other"; goto untag; };
 v5:  goto tgfin;
 untag:   \* roll-back of what this call vmade (details abstracted: one step per reference)
      if (vmade /\ pref[vp] = vc) { pref[vp] := None; ev := Ev(self, "untag", P("pidref", vp), NoPath, "ok"); };
 u2:  if (vmade /\ cref[vc].has /\ InSeq(vp, cref[vc].pids)) {
        cref[vc] := IF Without(cref[vc].pids, vp) = <<>> THEN NoList ELSE List(Without(cref[vc].pids, vp));
        ev := Ev(self, "untag", P("cidref", vc), NoPath, "ok");
      };
 tgfin: call release("cid", vc);
 tg9: call release("refpid", vp);
 tg10: result[self] := vout;
      if (vout = "ok" /\ Job[self].op = "store") { rdata[self] := vc; };
      return;
}

\* ---- store_object(vp, vc) / store_object(None, vc) -----------------------------------
procedure store(vp, vc, vval)
  variables vx = FALSE; {
 st1: if (vp # "-") {
        \* `with condition: if pid in locked: raise StoreObjectForPidAlreadyInProgress`
        ev := Ev(self, "sec", <<"lock", "L1">>, NoPath, "peek");
        if (InL("objpid", vp)) { result[self] := "inprogress"; return; };
 st2:   call claim("objpid", vp);
      };
      \* _move_and_get_checksums: stage in tmp (local), then the existence probe
 st3: vx := obj[vc] = "ok"; ev := Ev(self, "stat", P("obj", vc), NoPath, FN(vx));
      \* validation against the staged file: a mismatch removes the staged file (local) and raises
      if (vval \in {"badsum", "badsize"}) { result[self] := vval; goto st7; };
 st3b: if (~vx) {
 st4:   ev := Ev(self, "stat", P("obj", vc), NoPath, FN(obj[vc] = "ok"));
 st5:   obj[vc] := "ok"; ev := Ev(self, "rename", P("tmp", "objects"), P("obj", vc), "ok");
      };
 st6: if (vp = "-") { result[self] := "ok"; rdata[self] := vc; return; }
      else { call tag(vp, vc); };
      \* the object may have been removed between the probe / publish above and the tagging:
      \* once the pid is tagged nobody else can remove it, so look again and store the data again
 st6b: if (result[self] \in {"ok", "exists"}) {   \* (also after a rejected tagging: fix F12)
        vx := obj[vc] = "ok"; ev := Ev(self, "stat", P("obj", vc), NoPath, FN(vx));
        if (~vx) {
 st6c:    ev := Ev(self, "stat", P("obj", vc), NoPath, FN(obj[vc] = "ok"));   \* objects/<cid> unsharded
 st6d:    vx := obj[vc] = "ok"; ev := Ev(self, "stat", P("obj", vc), NoPath, FN(vx));
          if (~vx) {
 st6e:      ev := Ev(self, "stat", P("obj", vc), NoPath, FN(obj[vc] = "ok"));
 st6f:      obj[vc] := "ok"; ev := Ev(self, "rename", P("tmp", "objects"), P("obj", vc), "ok");
          };
        };
      };
 st7: call release("objpid", vp);
 st8: return;
}

\* ---- delete_if_invalid_object(vc) with an invalid verdict -> _delete_object_only(vc) ----
procedure diibad(vc)
  variables vb = FALSE, vx = FALSE; {
 di1: call claim("cid", vc);
 di2: vb := cref[vc].has; ev := Ev(self, "stat", P("cidref", vc), NoPath, StatCid(vc));
      if (~vb) {
 di3:   vx := obj[vc] = "ok"; ev := Ev(self, "stat", P("obj", vc), NoPath, FN(vx));
        if (vx) {
 di4:     if (obj[vc] = "ok") { obj[vc] := "absent"; ev := Ev(self, "remove", P("obj", vc), NoPath, "ok"); result[self] := "badsum"; }
          else { ev := Ev(self, "remove", P("obj", vc), NoPath, "!fnf"); result[self] := "ioerror"; };
        } else {
          \* _get_hashstore_data_object_path also probes objects/<cid> unsharded before giving up
 di3b:    ev := Ev(self, "stat", P("obj", vc), NoPath, FN(obj[vc] = "ok"));
          result[self] := "ioerror";
        };
      } else { result[self] := "badsum"; };
 di5: call release("cid", vc);
 di6: return;
}

\* ---- delete_object(vp) ----------------------------------------------------------------
procedure delete(vp)
  variables vc = None, vcls = "-", vrl = <<>>, va = FALSE, vb = FALSE, vx = FALSE, vdels = {},
            vdocs = {}, vf = "-"; {
 d1:  call claim("objpid", vp);
 d2:  call claim("refpid", vp);
      \* _find_object
 f1:  va := pref[vp] # None; ev := Ev(self, "stat", P("pidref", vp), NoPath, FN(va));
      if (~va) { vcls := "nopid"; goto dfin; };
 f2:  if (pref[vp] = None) { ev := Ev(self, "read", P("pidref", vp), NoPath, "!fnf"); vcls := "ioerror"; goto dfin; }
      else { vc := pref[vp]; ev := EvV(self, "read", P("pidref", vp), NoPath, "ok", <<vc>>); };
 f3:  vb := cref[vc].has; ev := Ev(self, "stat", P("cidref", vc), NoPath, StatCid(vc));
      if (~vb) { vcls := "orphan"; goto orphan; };
 f4:  if (~cref[vc].has) { ev := Ev(self, "read", P("cidref", vc), NoPath, "!fnf"); vcls := "ioerror"; goto dfin; }
      else { vrl := cref[vc].pids; ev := EvV(self, "read", P("cidref", vc), NoPath, "ok", vrl); };
 f5:  if (~InSeq(vp, vrl)) { vcls := "notinlist"; goto orphan; };
 f6:  vx := obj[vc] = "ok"; ev := Ev(self, "stat", P("obj", vc), NoPath, FN(vx));
      if (~vx) { vcls := "objmissing"; goto missing; };
 f7:  ev := Ev(self, "stat", P("obj", vc), NoPath, FN(obj[vc] = "ok"));
 f8:  ev := Ev(self, "stat", P("doc", vp \o "/" \o DefaultNs), NoPath, FN(doc[vp][DefaultNs] # None));
      vcls := "found";
      \* main path
 m1:  call claim("cid", vc);
 m2:  ev := Ev(self, "stat", P("pidrefdel", vp), NoPath, FN(P("pidrefdel", vp) \in mark));
 m3:  if (pref[vp] = None) { ev := Ev(self, "rename", P("pidref", vp), P("pidrefdel", vp), "!fnf"); vcls := "ioerror"; goto mrel; }
      else { pref[vp] := None; mark := mark \cup {P("pidrefdel", vp)}; vdels := vdels \cup {P("pidrefdel", vp)};
             ev := Ev(self, "rename", P("pidref", vp), P("pidrefdel", vp), "ok"); };
 m4:  vb := cref[vc].has; ev := Ev(self, "stat", P("cidref", vc), NoPath, StatCid(vc));
      if (~vb) { vcls := "ioerror"; goto mrel; };
 m5:  if (~cref[vc].has) { ev := Ev(self, "openrw", P("cidref", vc), NoPath, "!fnf"); vcls := "ioerror"; goto mrel; }
      else { vrl := cref[vc].pids; ev := EvV(self, "openrw", P("cidref", vc), NoPath, "ok", vrl); };
 m6:  cref[vc] := List(Without(vrl, vp)); ev := Ev(self, "rewrite", P("cidref", vc), NoPath, "ok");
 m7:  ev := Ev(self, "truncate", P("cidref", vc), NoPath, "ok");
 m8:  vb := cref[vc].has /\ cref[vc].pids = <<>>; ev := Ev(self, "stat", P("cidref", vc), NoPath, StatCid(vc));
      if (~cref[vc].has) { vcls := "ioerror"; goto mrel; };
 m8b: if (vb) {
 m9:    ev := Ev(self, "stat", P("cidrefdel", vc), NoPath, FN(P("cidrefdel", vc) \in mark));
 m10:   if (~cref[vc].has) { ev := Ev(self, "rename", P("cidref", vc), P("cidrefdel", vc), "!fnf"); vcls := "ioerror"; goto mrel; }
        else { keep[vc] := cref[vc].pids; cref[vc] := NoList; mark := mark \cup {P("cidrefdel", vc)};
               vdels := vdels \cup {P("cidrefdel", vc)};
               ev := Ev(self, "rename", P("cidref", vc), P("cidrefdel", vc), "ok"); };
 m11:   ev := Ev(self, "stat", P("objdel", vc), NoPath, FN(P("objdel", vc) \in mark));
 m12:   if (obj[vc] # "ok") { ev := Ev(self, "rename", P("obj", vc), P("objdel", vc), "!fnf"); vcls := "ioerror"; goto mrel; }
        else { obj[vc] := "absent"; mark := mark \cup {P("objdel", vc)}; vdels := vdels \cup {P("objdel", vc)};
               ev := Ev(self, "rename", P("obj", vc), P("objdel", vc), "ok"); };
      };
 m13: while (vdels # {}) {            \* _delete_marked_files (failures swallowed)
        with (vd \in vdels) { mark := mark \ {vd}; vdels := vdels \ {vd};
                            ev := Ev(self, "remove", vd, NoPath, "ok"); };
      };
 m14: call delmeta_all(vp);
 mrel: call release("cid", vc);
      goto dfin;
 orphan:   \* OrphanPidRefsFileFound / PidNotFoundInCidRefsFile: drop the pid reference only
      ev := Ev(self, "stat", P("pidrefdel", vp), NoPath, FN(P("pidrefdel", vp) \in mark));
 o2:  if (pref[vp] = None) { ev := Ev(self, "rename", P("pidref", vp), P("pidrefdel", vp), "!fnf"); vcls := "ioerror"; goto dfin; }
      else { pref[vp] := None; mark := mark \cup {P("pidrefdel", vp)};
             ev := Ev(self, "rename", P("pidref", vp), P("pidrefdel", vp), "ok"); };
 o3:  call delmeta_all(vp);
 o4:  mark := mark \ {P("pidrefdel", vp)}; ev := Ev(self, "remove", P("pidrefdel", vp), NoPath, "ok");
      goto dfin;
 missing:  \* RefsFileExistsButCidObjMissing
      ev := Ev(self, "stat", P("obj", vc), NoPath, FN(obj[vc] = "ok"));
 x1:  if (pref[vp] = None) { ev := Ev(self, "read", P("pidref", vp), NoPath, "!fnf"); vcls := "ioerror"; goto dfin; }
      else { vc := pref[vp]; ev := EvV(self, "read", P("pidref", vp), NoPath, "ok", <<vc>>); };
 x2:  ev := Ev(self, "stat", P("pidrefdel", vp), NoPath, FN(P("pidrefdel", vp) \in mark));
 x3:  if (pref[vp] = None) { ev := Ev(self, "rename", P("pidref", vp), P("pidrefdel", vp), "!fnf"); vcls := "ioerror"; goto dfin; }
      else { pref[vp] := None; mark := mark \cup {P("pidrefdel", vp)};
             ev := Ev(self, "rename", P("pidref", vp), P("pidrefdel", vp), "ok"); };
 x4:  call claim("cid", vc);
 x5:  if (~cref[vc].has) { ev := Ev(self, "read", P("cidref", vc), NoPath, "!fnf"); vcls := "ioerror"; goto xrel; }
      else { vrl := cref[vc].pids; ev := EvV(self, "read", P("cidref", vc), NoPath, "ok", vrl); };
 x6:  if (InSeq(vp, vrl)) {
        vb := cref[vc].has; ev := Ev(self, "stat", P("cidref", vc), NoPath, StatCid(vc));
        if (~vb) { vcls := "ioerror"; goto xrel; };
 x7:    if (~cref[vc].has) { ev := Ev(self, "openrw", P("cidref", vc), NoPath, "!fnf"); vcls := "ioerror"; goto xrel; }
        else { vrl := cref[vc].pids; ev := EvV(self, "openrw", P("cidref", vc), NoPath, "ok", vrl); };
 x8:    cref[vc] := List(Without(vrl, vp)); ev := Ev(self, "rewrite", P("cidref", vc), NoPath, "ok");
 x9:    ev := Ev(self, "truncate", P("cidref", vc), NoPath, "ok");
      };
 x10: vb := cref[vc].has /\ cref[vc].pids = <<>>;
      ev := Ev(self, "stat", P("cidref", vc), NoPath, StatCid(vc));
      if (~cref[vc].has) { vcls := "ioerror"; goto xrel; };
 x10b: if (vb) {
 x11:   ev := Ev(self, "stat", P("cidrefdel", vc), NoPath, FN(P("cidrefdel", vc) \in mark));
 x12:   if (~cref[vc].has) { ev := Ev(self, "rename", P("cidref", vc), P("cidrefdel", vc), "!fnf"); vcls := "ioerror"; goto xrel; }
        else { cref[vc] := NoList; mark := mark \cup {P("cidrefdel", vc)};
               ev := Ev(self, "rename", P("cidref", vc), P("cidrefdel", vc), "ok"); };
        \* fix F13: the object may have been stored since it was found missing; this pid was
        \* its last reference, so it goes as well
 x12b:  vx := obj[vc] = "ok"; ev := Ev(self, "stat", P("obj", vc), NoPath, FN(vx));
        if (~vx) {
 x12c:    ev := Ev(self, "stat", P("obj", vc), NoPath, FN(obj[vc] = "ok"));   \* objects/<cid> unsharded
        } else {
 x12c2:   ev := Ev(self, "stat", P("obj", vc), NoPath, FN(obj[vc] = "ok"));   \* _get_hashstore_data_object_path
 x12d:    ev := Ev(self, "stat", P("objdel", vc), NoPath, FN(P("objdel", vc) \in mark));
 x12e:    if (obj[vc] # "ok") { ev := Ev(self, "rename", P("obj", vc), P("objdel", vc), "!fnf"); vcls := "ioerror"; goto xrel; }
          else { obj[vc] := "absent"; mark := mark \cup {P("objdel", vc)};
                 ev := Ev(self, "rename", P("obj", vc), P("objdel", vc), "ok"); };
        };
      };
 xrel: call release("cid", vc);
 x13: if (vcls = "ioerror") { goto dfin; };
 x14: call delmeta_all(vp);
 x15: mark := mark \ {P("pidrefdel", vp)}; ev := Ev(self, "remove", P("pidrefdel", vp), NoPath, "ok");
 x16: if (P("cidrefdel", vc) \in mark) {
        mark := mark \ {P("cidrefdel", vc)}; ev := Ev(self, "remove", P("cidrefdel", vc), NoPath, "ok");
      };
 x17: if (P("objdel", vc) \in mark) {
        mark := mark \ {P("objdel", vc)}; ev := Ev(self, "remove", P("objdel", vc), NoPath, "ok");
      };
 dfin: call release("refpid", vp);
 d8:  call release("objpid", vp);
 d9:  result[self] := IF vcls \in {"found", "orphan", "notinlist", "objmissing"} THEN "ok" ELSE vcls;
      return;
}

\* ---- delete_metadata(p) (all formats): list the pid's directory, probe every entry, then per
\* entry claim / mark / release, finally remove the markers.  The listing contains whatever
\* is in the directory at that moment - including another deleter's *_delete markers.
procedure delmeta_all(vp)
  variables vtodo = {}, vkeepl = {}, vmarked = {}, ve = <<"-", "-">>; {
 dm1: vtodo := {<<"doc", vff>> : vff \in {g \in Fmt : doc[vp][g] # None}}
               \cup {<<"docdel", vff>> : vff \in {g \in Fmt : P("docdel", vp \o "/" \o g) \in mark}}
               \cup {<<"docdel2", vff>> : vff \in {g \in Fmt : P("docdel2", vp \o "/" \o g) \in mark}};
      \* (os.listdir: a directory read, not logged)
 dm2: while (vtodo # {}) {
        with (vx0 \in vtodo) { ve := vx0; vtodo := vtodo \ {vx0}; };
 dm3:   if (Here(ve[1], vp, ve[2])) { vkeepl := vkeepl \cup {ve}; };
        ev := Ev(self, "stat", P(ve[1], vp \o "/" \o ve[2]), NoPath, FN(Here(ve[1], vp, ve[2])));
      };
 dm4: while (vkeepl # {}) {
        with (vx0 \in vkeepl) { ve := vx0; vkeepl := vkeepl \ {vx0}; };
 dm5:   call claim("doc", vp \o "/" \o ve[2] \o Suffix(ve[1]));
 dm6:   ev := Ev(self, "stat", P(NextKind(ve[1]), vp \o "/" \o ve[2]), NoPath,
                 FN(P(NextKind(ve[1]), vp \o "/" \o ve[2]) \in mark));
 dm7:   if (Here(ve[1], vp, ve[2])) {
          if (ve[1] = "doc") { doc[vp][ve[2]] := None; }
          else { mark := mark \ {P(ve[1], vp \o "/" \o ve[2])}; };
 dm7b:    mark := mark \cup {P(NextKind(ve[1]), vp \o "/" \o ve[2])};
          vmarked := vmarked \cup {<<NextKind(ve[1]), ve[2]>>};
          ev := Ev(self, "rename", P(ve[1], vp \o "/" \o ve[2]), P(NextKind(ve[1]), vp \o "/" \o ve[2]), "ok");
        } else {
          \* vanished after it was listed: os.rename fails, shutil.move falls back to copying
          \* (islink / isdir / samefile probes, then open(src) raises FileNotFoundError), tolerated
          ev := Ev(self, "rename", P(ve[1], vp \o "/" \o ve[2]), P(NextKind(ve[1]), vp \o "/" \o ve[2]), "!fnf");
 mf1:     ev := Ev(self, "stat", P(ve[1], vp \o "/" \o ve[2]), NoPath, FN(Here(ve[1], vp, ve[2])));
 mf2:     ev := Ev(self, "stat", P(ve[1], vp \o "/" \o ve[2]), NoPath, FN(Here(ve[1], vp, ve[2])));
 mf3:     ev := Ev(self, "stat", P(NextKind(ve[1]), vp \o "/" \o ve[2]), NoPath,
                   FN(P(NextKind(ve[1]), vp \o "/" \o ve[2]) \in mark));
 mf4:     ev := Ev(self, "stat", P(ve[1], vp \o "/" \o ve[2]), NoPath, FN(Here(ve[1], vp, ve[2])));
 mf5:     ev := Ev(self, "stat", P(ve[1], vp \o "/" \o ve[2]), NoPath, FN(Here(ve[1], vp, ve[2])));
 mf6:     ev := Ev(self, "stat", P(NextKind(ve[1]), vp \o "/" \o ve[2]), NoPath,
                   FN(P(NextKind(ve[1]), vp \o "/" \o ve[2]) \in mark));
 mf7:     if (ve[1] = "doc") { ev := Ev(self, "read", P(ve[1], vp \o "/" \o ve[2]), NoPath, "!fnf"); };
        };
 dm8:   call release("doc", vp \o "/" \o ve[2] \o Suffix(ve[1]));
      };
 dm9: while (vmarked # {}) {
        with (vx0 \in vmarked) { ve := vx0; vmarked := vmarked \ {vx0}; };
 dm10:  if (P(ve[1], vp \o "/" \o ve[2]) \in mark) {
          mark := mark \ {P(ve[1], vp \o "/" \o ve[2])};
          ev := Ev(self, "remove", P(ve[1], vp \o "/" \o ve[2]), NoPath, "ok");
        } else { ev := Ev(self, "remove", P(ve[1], vp \o "/" \o ve[2]), NoPath, "!fnf"); };
      };
 dm11: return;
}

\* ---- store_metadata(p, f, v): claim the document name, stage (local), move over the name ----
procedure putmeta(vp, vf, vver) {
 pm1: call claim("doc", vp \o "/" \o vf);
 pm2: ev := Ev(self, "stat", P("doc", vp \o "/" \o vf), NoPath, FN(doc[vp][vf] # None));
 pm3: doc[vp][vf] := vver;
      ev := Ev(self, "rename", P("tmp", "metadata"), P("doc", vp \o "/" \o vf), "ok");
 pm4: call release("doc", vp \o "/" \o vf);
 pm5: result[self] := "ok";
      return;
}
\* ---- retrieve_metadata(p, f): probe, probe again inside _open, open and read (no lock) ----
procedure getmeta(vp, vf)
  variables vx = FALSE; {
 gm1: vx := doc[vp][vf] # None; ev := Ev(self, "stat", P("doc", vp \o "/" \o vf), NoPath, FN(vx));
      if (~vx) { result[self] := "notfound"; goto gm4; };
 gm2: vx := doc[vp][vf] # None; ev := Ev(self, "stat", P("doc", vp \o "/" \o vf), NoPath, FN(vx));
      if (~vx) { result[self] := "notfound"; goto gm4; };
 gm3: if (doc[vp][vf] = None) { ev := Ev(self, "read", P("doc", vp \o "/" \o vf), NoPath, "!fnf");
                                result[self] := "notfound"; }
      else { ev := EvV(self, "read", P("doc", vp \o "/" \o vf), NoPath, "ok", <<doc[vp][vf]>>);
             result[self] := "ok"; rdata[self] := doc[vp][vf]; };
 gm4: return;
}
\* ---- delete_metadata(p, f): claim the document name, probe, remove ----
procedure delmeta_one(vp, vf)
  variables vx = FALSE; {
 do1: call claim("doc", vp \o "/" \o vf);
 do2: vx := doc[vp][vf] # None; ev := Ev(self, "stat", P("doc", vp \o "/" \o vf), NoPath, FN(vx));
      if (vx) {
 do3:   if (doc[vp][vf] = None) { ev := Ev(self, "remove", P("doc", vp \o "/" \o vf), NoPath, "!fnf"); result[self] := "ioerror"; }
        else { doc[vp][vf] := None; ev := Ev(self, "remove", P("doc", vp \o "/" \o vf), NoPath, "ok"); };
      } else {
 do4:   ev := Ev(self, "stat", P("doc", vp \o "/" \o vf), NoPath, FN(doc[vp][vf] # None));
      };
 do5: call release("doc", vp \o "/" \o vf);
 do6: if (result[self] = "-") { result[self] := "ok"; };
      return;
}
procedure delmeta_top(vp) {
 dt1: call delmeta_all(vp);
 dt2: result[self] := "ok";
      return;
}

\* ---- retrieve_object(p): _find_object without any lock, then open the object ----
procedure retrieve(vp)
  variables vc = None, vrl = <<>>, va = FALSE, vb = FALSE, vx = FALSE; {
 r1:  va := pref[vp] # None; ev := Ev(self, "stat", P("pidref", vp), NoPath, FN(va));
      if (~va) { result[self] := "nopid"; goto r12; };
 r2:  if (pref[vp] = None) { ev := Ev(self, "read", P("pidref", vp), NoPath, "!fnf"); result[self] := "ioerror"; goto r12; }
      else { vc := pref[vp]; ev := EvV(self, "read", P("pidref", vp), NoPath, "ok", <<vc>>); };
 r3:  vb := cref[vc].has; ev := Ev(self, "stat", P("cidref", vc), NoPath, StatCid(vc));
      if (~vb) { result[self] := "inconsistent"; goto r12; };
 r4:  if (~cref[vc].has) { ev := Ev(self, "read", P("cidref", vc), NoPath, "!fnf"); result[self] := "ioerror"; goto r12; }
      else { vrl := cref[vc].pids; ev := EvV(self, "read", P("cidref", vc), NoPath, "ok", vrl); };
 r5:  if (~InSeq(vp, vrl)) { result[self] := "inconsistent"; goto r12; };
 r6:  vx := obj[vc] = "ok"; ev := Ev(self, "stat", P("obj", vc), NoPath, FN(vx));
      if (~vx) {
 r6b:   ev := Ev(self, "stat", P("obj", vc), NoPath, FN(obj[vc] = "ok"));
        result[self] := "inconsistent"; goto r12;
      };
 r7:  vx := obj[vc] = "ok"; ev := Ev(self, "stat", P("obj", vc), NoPath, FN(vx));
      if (~vx) {
 r7b:   ev := Ev(self, "stat", P("obj", vc), NoPath, FN(obj[vc] = "ok"));
        result[self] := "ioerror"; goto r12;
      };
 r8:  ev := Ev(self, "stat", P("doc", vp \o "/" \o DefaultNs), NoPath, FN(doc[vp][DefaultNs] # None));
 r9:  vx := obj[vc] = "ok"; ev := Ev(self, "stat", P("obj", vc), NoPath, FN(vx));
      if (~vx) {
 r9b:   ev := Ev(self, "stat", P("obj", vc), NoPath, FN(obj[vc] = "ok"));
        result[self] := "ioerror"; goto r12;
      };
 r10: if (obj[vc] # "ok") { ev := Ev(self, "read", P("obj", vc), NoPath, "!fnf"); result[self] := "ioerror"; }
      else { ev := EvV(self, "read", P("obj", vc), NoPath, "ok", <<vc>>); result[self] := "ok"; rdata[self] := vc; };
 r12: return;
}

fair process (proc \in Thread) {
 run: if (Job[self].op = "store") { call store(Job[self].pid, Job[self].c, Job[self].val); }
      else if (Job[self].op = "storenp") { call store("-", Job[self].c, "none"); }
      else if (Job[self].op = "tag") { call tag(Job[self].pid, Job[self].c); }
      else if (Job[self].op = "delete") { call delete(Job[self].pid); }
      else if (Job[self].op = "dii") {
        if (Job[self].val = "good") { result[self] := "ok"; } else { call diibad(Job[self].c); };
      }
      else if (Job[self].op = "retrieve") { call retrieve(Job[self].pid); }
      else if (Job[self].op = "putmeta") { call putmeta(Job[self].pid, EffFmt(Job[self].fmt), Job[self].ver); }
      else if (Job[self].op = "getmeta") { call getmeta(Job[self].pid, EffFmt(Job[self].fmt)); }
      else if (Job[self].op = "delmeta") {
        if (Job[self].fmt = NoFmt) { call delmeta_top(Job[self].pid); }
        else { call delmeta_one(Job[self].pid, Job[self].fmt); };
      };
 fin: skip;
}
} *)
\* BEGIN TRANSLATION (chksum(pcal) = "3e4492d0" /\ chksum(tla) = "b8c5e917")
\* Procedure variable va of procedure tag at line 97 col 13 changed to va_
\* Procedure variable vb of procedure tag at line 97 col 25 changed to vb_
\* Procedure variable vrl of procedure tag at line 97 col 77 changed to vrl_
\* Procedure variable vx of procedure store at line 172 col 13 changed to vx_
\* Procedure variable vb of procedure diibad at line 208 col 13 changed to vb_d
\* Procedure variable vx of procedure diibad at line 208 col 25 changed to vx_d
\* Procedure variable vc of procedure delete at line 228 col 13 changed to vc_
\* Procedure variable vrl of procedure delete at line 228 col 36 changed to vrl_d
\* Procedure variable va of procedure delete at line 228 col 48 changed to va_d
\* Procedure variable vb of procedure delete at line 228 col 60 changed to vb_de
\* Procedure variable vx of procedure delete at line 228 col 72 changed to vx_de
\* Procedure variable vf of procedure delete at line 229 col 25 changed to vf_
\* Procedure variable vx of procedure getmeta at line 406 col 13 changed to vx_g
\* Procedure variable vx of procedure delmeta_one at line 419 col 13 changed to vx_del
\* Procedure variable vc of procedure retrieve at line 440 col 13 changed to vc_r
\* Parameter vtb of procedure claim at line 65 col 17 changed to vtb_
\* Parameter vid of procedure claim at line 65 col 22 changed to vid_
\* Parameter vp of procedure tag at line 96 col 15 changed to vp_
\* Parameter vc of procedure tag at line 96 col 19 changed to vc_t
\* Parameter vp of procedure store at line 171 col 17 changed to vp_s
\* Parameter vc of procedure store at line 171 col 21 changed to vc_s
\* Parameter vp of procedure delete at line 227 col 18 changed to vp_d
\* Parameter vp of procedure delmeta_all at line 346 col 23 changed to vp_de
\* Parameter vp of procedure putmeta at line 395 col 19 changed to vp_p
\* Parameter vf of procedure putmeta at line 395 col 23 changed to vf_p
\* Parameter vp of procedure getmeta at line 405 col 19 changed to vp_g
\* Parameter vf of procedure getmeta at line 405 col 23 changed to vf_g
\* Parameter vp of procedure delmeta_one at line 418 col 23 changed to vp_del
\* Parameter vp of procedure delmeta_top at line 432 col 23 changed to vp_delm
CONSTANT defaultInitValue
VARIABLES pc, obj, pref, cref, doc, mark, keep, locked, waitq, woken, ev, 
          result, rdata, stack

(* define statement *)
EvV(t, op, a, b, out, val) == [n |-> ev.n + 1, t |-> t, op |-> op, a |-> a, b |-> b, out |-> out, val |-> val]
Ev(t, op, a, b, out) == EvV(t, op, a, b, out, <<>>)
StatCid(cc_) == IF ~cref[cc_].has THEN "N" ELSE IF cref[cc_].pids = <<>> THEN "F0" ELSE "F"
InL(vtbl, vi)  == InSeq(vi, locked[vtbl])
Here(kind, pp, g) == IF kind = "doc" THEN doc[pp][g] # None ELSE P(kind, pp \o "/" \o g) \in mark
NextKind(kind) == CASE kind = "doc" -> "docdel" [] kind = "docdel" -> "docdel2" [] OTHER -> "docdel3"
Suffix(kind) == CASE kind = "doc" -> "" [] kind = "docdel" -> "_delete" [] OTHER -> "_delete_delete"
AllDone     == \A proc \in Thread : pc[proc] = "Done"
Abs         == [obj |-> obj, pref |-> pref, cref |-> cref, doc |-> doc,
                junk |-> Cardinality(mark)]

VARIABLES vtb_, vid_, vtb, vid, vp_, vc_t, va_, vb_, vout, vmade, vrp, vrl_, 
          vp_s, vc_s, vval, vx_, vc, vb_d, vx_d, vp_d, vc_, vcls, vrl_d, va_d, 
          vb_de, vx_de, vdels, vdocs, vf_, vp_de, vtodo, vkeepl, vmarked, ve, 
          vp_p, vf_p, vver, vp_g, vf_g, vx_g, vp_del, vf, vx_del, vp_delm, vp, 
          vc_r, vrl, va, vb, vx

vars == << pc, obj, pref, cref, doc, mark, keep, locked, waitq, woken, ev, 
           result, rdata, stack, vtb_, vid_, vtb, vid, vp_, vc_t, va_, vb_, 
           vout, vmade, vrp, vrl_, vp_s, vc_s, vval, vx_, vc, vb_d, vx_d, 
           vp_d, vc_, vcls, vrl_d, va_d, vb_de, vx_de, vdels, vdocs, vf_, 
           vp_de, vtodo, vkeepl, vmarked, ve, vp_p, vf_p, vver, vp_g, vf_g, 
           vx_g, vp_del, vf, vx_del, vp_delm, vp, vc_r, vrl, va, vb, vx >>

ProcSet == (Thread)

Init == (* Global variables *)
        /\ obj = Start.obj
        /\ pref = Start.pref
        /\ cref = Start.cref
        /\ doc = Start.doc
        /\ mark = {}
        /\ keep = [vcc \in Cid |-> <<>>]
        /\ locked = [vtbl \in Tables |-> <<>>]
        /\ waitq = [vtbl \in Tables |-> <<>>]
        /\ woken = {}
        /\ ev = NoEv
        /\ result = [proc \in Thread |-> "-"]
        /\ rdata = [proc \in Thread |-> "-"]
        (* Procedure claim *)
        /\ vtb_ = [ self \in ProcSet |-> defaultInitValue]
        /\ vid_ = [ self \in ProcSet |-> defaultInitValue]
        (* Procedure release *)
        /\ vtb = [ self \in ProcSet |-> defaultInitValue]
        /\ vid = [ self \in ProcSet |-> defaultInitValue]
        (* Procedure tag *)
        /\ vp_ = [ self \in ProcSet |-> defaultInitValue]
        /\ vc_t = [ self \in ProcSet |-> defaultInitValue]
        /\ va_ = [ self \in ProcSet |-> FALSE]
        /\ vb_ = [ self \in ProcSet |-> FALSE]
        /\ vout = [ self \in ProcSet |-> "ok"]
        /\ vmade = [ self \in ProcSet |-> FALSE]
        /\ vrp = [ self \in ProcSet |-> None]
        /\ vrl_ = [ self \in ProcSet |-> <<>>]
        (* Procedure store *)
        /\ vp_s = [ self \in ProcSet |-> defaultInitValue]
        /\ vc_s = [ self \in ProcSet |-> defaultInitValue]
        /\ vval = [ self \in ProcSet |-> defaultInitValue]
        /\ vx_ = [ self \in ProcSet |-> FALSE]
        (* Procedure diibad *)
        /\ vc = [ self \in ProcSet |-> defaultInitValue]
        /\ vb_d = [ self \in ProcSet |-> FALSE]
        /\ vx_d = [ self \in ProcSet |-> FALSE]
        (* Procedure delete *)
        /\ vp_d = [ self \in ProcSet |-> defaultInitValue]
        /\ vc_ = [ self \in ProcSet |-> None]
        /\ vcls = [ self \in ProcSet |-> "-"]
        /\ vrl_d = [ self \in ProcSet |-> <<>>]
        /\ va_d = [ self \in ProcSet |-> FALSE]
        /\ vb_de = [ self \in ProcSet |-> FALSE]
        /\ vx_de = [ self \in ProcSet |-> FALSE]
        /\ vdels = [ self \in ProcSet |-> {}]
        /\ vdocs = [ self \in ProcSet |-> {}]
        /\ vf_ = [ self \in ProcSet |-> "-"]
        (* Procedure delmeta_all *)
        /\ vp_de = [ self \in ProcSet |-> defaultInitValue]
        /\ vtodo = [ self \in ProcSet |-> {}]
        /\ vkeepl = [ self \in ProcSet |-> {}]
        /\ vmarked = [ self \in ProcSet |-> {}]
        /\ ve = [ self \in ProcSet |-> <<"-", "-">>]
        (* Procedure putmeta *)
        /\ vp_p = [ self \in ProcSet |-> defaultInitValue]
        /\ vf_p = [ self \in ProcSet |-> defaultInitValue]
        /\ vver = [ self \in ProcSet |-> defaultInitValue]
        (* Procedure getmeta *)
        /\ vp_g = [ self \in ProcSet |-> defaultInitValue]
        /\ vf_g = [ self \in ProcSet |-> defaultInitValue]
        /\ vx_g = [ self \in ProcSet |-> FALSE]
        (* Procedure delmeta_one *)
        /\ vp_del = [ self \in ProcSet |-> defaultInitValue]
        /\ vf = [ self \in ProcSet |-> defaultInitValue]
        /\ vx_del = [ self \in ProcSet |-> FALSE]
        (* Procedure delmeta_top *)
        /\ vp_delm = [ self \in ProcSet |-> defaultInitValue]
        (* Procedure retrieve *)
        /\ vp = [ self \in ProcSet |-> defaultInitValue]
        /\ vc_r = [ self \in ProcSet |-> None]
        /\ vrl = [ self \in ProcSet |-> <<>>]
        /\ va = [ self \in ProcSet |-> FALSE]
        /\ vb = [ self \in ProcSet |-> FALSE]
        /\ vx = [ self \in ProcSet |-> FALSE]
        /\ stack = [self \in ProcSet |-> << >>]
        /\ pc = [self \in ProcSet |-> "run"]

cl1(self) == /\ pc[self] = "cl1"
             /\ IF InL(vtb_[self], vid_[self])
                   THEN /\ waitq' = [waitq EXCEPT ![vtb_[self]] = Append(waitq[vtb_[self]], self)]
                        /\ ev' = Ev(self, "sec", <<"lock", LockOf(vtb_[self])>>, NoPath, "wait")
                        /\ pc' = [pc EXCEPT ![self] = "cl2"]
                        /\ UNCHANGED locked
                   ELSE /\ locked' = [locked EXCEPT ![vtb_[self]] = Append(locked[vtb_[self]], vid_[self])]
                        /\ ev' = Ev(self, "sec", <<"lock", LockOf(vtb_[self])>>, NoPath, "claim")
                        /\ pc' = [pc EXCEPT ![self] = "cl3"]
                        /\ waitq' = waitq
             /\ UNCHANGED << obj, pref, cref, doc, mark, keep, woken, result, 
                             rdata, stack, vtb_, vid_, vtb, vid, vp_, vc_t, 
                             va_, vb_, vout, vmade, vrp, vrl_, vp_s, vc_s, 
                             vval, vx_, vc, vb_d, vx_d, vp_d, vc_, vcls, vrl_d, 
                             va_d, vb_de, vx_de, vdels, vdocs, vf_, vp_de, 
                             vtodo, vkeepl, vmarked, ve, vp_p, vf_p, vver, 
                             vp_g, vf_g, vx_g, vp_del, vf, vx_del, vp_delm, vp, 
                             vc_r, vrl, va, vb, vx >>

cl2(self) == /\ pc[self] = "cl2"
             /\ self \in woken
             /\ woken' = woken \ {self}
             /\ IF InL(vtb_[self], vid_[self])
                   THEN /\ waitq' = [waitq EXCEPT ![vtb_[self]] = Append(waitq[vtb_[self]], self)]
                        /\ ev' = Ev(self, "wakeup", <<"table", vtb_[self]>>, NoPath, "wait")
                        /\ pc' = [pc EXCEPT ![self] = "cl2"]
                        /\ UNCHANGED locked
                   ELSE /\ locked' = [locked EXCEPT ![vtb_[self]] = Append(locked[vtb_[self]], vid_[self])]
                        /\ ev' = Ev(self, "wakeup", <<"table", vtb_[self]>>, NoPath, "claim")
                        /\ pc' = [pc EXCEPT ![self] = "cl3"]
                        /\ waitq' = waitq
             /\ UNCHANGED << obj, pref, cref, doc, mark, keep, result, rdata, 
                             stack, vtb_, vid_, vtb, vid, vp_, vc_t, va_, vb_, 
                             vout, vmade, vrp, vrl_, vp_s, vc_s, vval, vx_, vc, 
                             vb_d, vx_d, vp_d, vc_, vcls, vrl_d, va_d, vb_de, 
                             vx_de, vdels, vdocs, vf_, vp_de, vtodo, vkeepl, 
                             vmarked, ve, vp_p, vf_p, vver, vp_g, vf_g, vx_g, 
                             vp_del, vf, vx_del, vp_delm, vp, vc_r, vrl, va, 
                             vb, vx >>

cl3(self) == /\ pc[self] = "cl3"
             /\ pc' = [pc EXCEPT ![self] = Head(stack[self]).pc]
             /\ vtb_' = [vtb_ EXCEPT ![self] = Head(stack[self]).vtb_]
             /\ vid_' = [vid_ EXCEPT ![self] = Head(stack[self]).vid_]
             /\ stack' = [stack EXCEPT ![self] = Tail(stack[self])]
             /\ UNCHANGED << obj, pref, cref, doc, mark, keep, locked, waitq, 
                             woken, ev, result, rdata, vtb, vid, vp_, vc_t, 
                             va_, vb_, vout, vmade, vrp, vrl_, vp_s, vc_s, 
                             vval, vx_, vc, vb_d, vx_d, vp_d, vc_, vcls, vrl_d, 
                             va_d, vb_de, vx_de, vdels, vdocs, vf_, vp_de, 
                             vtodo, vkeepl, vmarked, ve, vp_p, vf_p, vver, 
                             vp_g, vf_g, vx_g, vp_del, vf, vx_del, vp_delm, vp, 
                             vc_r, vrl, va, vb, vx >>

claim(self) == cl1(self) \/ cl2(self) \/ cl3(self)

rl1(self) == /\ pc[self] = "rl1"
             /\ locked' = [locked EXCEPT ![vtb[self]] = Without(locked[vtb[self]], vid[self])]
             /\ ev' = Ev(self, "sec", <<"lock", LockOf(vtb[self])>>, NoPath, "release")
             /\ IF waitq[vtb[self]] # <<>>
                   THEN /\ woken' = (woken \cup {Head(waitq[vtb[self]])})
                        /\ waitq' = [waitq EXCEPT ![vtb[self]] = Tail(waitq[vtb[self]])]
                   ELSE /\ TRUE
                        /\ UNCHANGED << waitq, woken >>
             /\ pc' = [pc EXCEPT ![self] = Head(stack[self]).pc]
             /\ vtb' = [vtb EXCEPT ![self] = Head(stack[self]).vtb]
             /\ vid' = [vid EXCEPT ![self] = Head(stack[self]).vid]
             /\ stack' = [stack EXCEPT ![self] = Tail(stack[self])]
             /\ UNCHANGED << obj, pref, cref, doc, mark, keep, result, rdata, 
                             vtb_, vid_, vp_, vc_t, va_, vb_, vout, vmade, vrp, 
                             vrl_, vp_s, vc_s, vval, vx_, vc, vb_d, vx_d, vp_d, 
                             vc_, vcls, vrl_d, va_d, vb_de, vx_de, vdels, 
                             vdocs, vf_, vp_de, vtodo, vkeepl, vmarked, ve, 
                             vp_p, vf_p, vver, vp_g, vf_g, vx_g, vp_del, vf, 
                             vx_del, vp_delm, vp, vc_r, vrl, va, vb, vx >>

release(self) == rl1(self)

tg1(self) == /\ pc[self] = "tg1"
             /\ /\ stack' = [stack EXCEPT ![self] = << [ procedure |->  "claim",
                                                         pc        |->  "tg2",
                                                         vtb_      |->  vtb_[self],
                                                         vid_      |->  vid_[self] ] >>
                                                     \o stack[self]]
                /\ vid_' = [vid_ EXCEPT ![self] = vp_[self]]
                /\ vtb_' = [vtb_ EXCEPT ![self] = "refpid"]
             /\ pc' = [pc EXCEPT ![self] = "cl1"]
             /\ UNCHANGED << obj, pref, cref, doc, mark, keep, locked, waitq, 
                             woken, ev, result, rdata, vtb, vid, vp_, vc_t, 
                             va_, vb_, vout, vmade, vrp, vrl_, vp_s, vc_s, 
                             vval, vx_, vc, vb_d, vx_d, vp_d, vc_, vcls, vrl_d, 
                             va_d, vb_de, vx_de, vdels, vdocs, vf_, vp_de, 
                             vtodo, vkeepl, vmarked, ve, vp_p, vf_p, vver, 
                             vp_g, vf_g, vx_g, vp_del, vf, vx_del, vp_delm, vp, 
                             vc_r, vrl, va, vb, vx >>

tg2(self) == /\ pc[self] = "tg2"
             /\ /\ stack' = [stack EXCEPT ![self] = << [ procedure |->  "claim",
                                                         pc        |->  "e1a",
                                                         vtb_      |->  vtb_[self],
                                                         vid_      |->  vid_[self] ] >>
                                                     \o stack[self]]
                /\ vid_' = [vid_ EXCEPT ![self] = vc_t[self]]
                /\ vtb_' = [vtb_ EXCEPT ![self] = "cid"]
             /\ pc' = [pc EXCEPT ![self] = "cl1"]
             /\ UNCHANGED << obj, pref, cref, doc, mark, keep, locked, waitq, 
                             woken, ev, result, rdata, vtb, vid, vp_, vc_t, 
                             va_, vb_, vout, vmade, vrp, vrl_, vp_s, vc_s, 
                             vval, vx_, vc, vb_d, vx_d, vp_d, vc_, vcls, vrl_d, 
                             va_d, vb_de, vx_de, vdels, vdocs, vf_, vp_de, 
                             vtodo, vkeepl, vmarked, ve, vp_p, vf_p, vver, 
                             vp_g, vf_g, vx_g, vp_del, vf, vx_del, vp_delm, vp, 
                             vc_r, vrl, va, vb, vx >>

e1a(self) == /\ pc[self] = "e1a"
             /\ va_' = [va_ EXCEPT ![self] = pref[vp_[self]] # None]
             /\ ev' = Ev(self, "stat", P("pidref", vp_[self]), NoPath, FN(va_'[self]))
             /\ IF va_'[self]
                   THEN /\ pc' = [pc EXCEPT ![self] = "e1b"]
                   ELSE /\ pc' = [pc EXCEPT ![self] = "e2a"]
             /\ UNCHANGED << obj, pref, cref, doc, mark, keep, locked, waitq, 
                             woken, result, rdata, stack, vtb_, vid_, vtb, vid, 
                             vp_, vc_t, vb_, vout, vmade, vrp, vrl_, vp_s, 
                             vc_s, vval, vx_, vc, vb_d, vx_d, vp_d, vc_, vcls, 
                             vrl_d, va_d, vb_de, vx_de, vdels, vdocs, vf_, 
                             vp_de, vtodo, vkeepl, vmarked, ve, vp_p, vf_p, 
                             vver, vp_g, vf_g, vx_g, vp_del, vf, vx_del, 
                             vp_delm, vp, vc_r, vrl, va, vb, vx >>

e1b(self) == /\ pc[self] = "e1b"
             /\ vb_' = [vb_ EXCEPT ![self] = cref[vc_t[self]].has]
             /\ ev' = Ev(self, "stat", P("cidref", vc_t[self]), NoPath, StatCid(vc_t[self]))
             /\ IF vb_'[self]
                   THEN /\ pc' = [pc EXCEPT ![self] = "both"]
                   ELSE /\ pc' = [pc EXCEPT ![self] = "e2a"]
             /\ UNCHANGED << obj, pref, cref, doc, mark, keep, locked, waitq, 
                             woken, result, rdata, stack, vtb_, vid_, vtb, vid, 
                             vp_, vc_t, va_, vout, vmade, vrp, vrl_, vp_s, 
                             vc_s, vval, vx_, vc, vb_d, vx_d, vp_d, vc_, vcls, 
                             vrl_d, va_d, vb_de, vx_de, vdels, vdocs, vf_, 
                             vp_de, vtodo, vkeepl, vmarked, ve, vp_p, vf_p, 
                             vver, vp_g, vf_g, vx_g, vp_del, vf, vx_del, 
                             vp_delm, vp, vc_r, vrl, va, vb, vx >>

e2a(self) == /\ pc[self] = "e2a"
             /\ va_' = [va_ EXCEPT ![self] = pref[vp_[self]] # None]
             /\ ev' = Ev(self, "stat", P("pidref", vp_[self]), NoPath, FN(va_'[self]))
             /\ IF va_'[self]
                   THEN /\ pc' = [pc EXCEPT ![self] = "e2b"]
                   ELSE /\ pc' = [pc EXCEPT ![self] = "e3a"]
             /\ UNCHANGED << obj, pref, cref, doc, mark, keep, locked, waitq, 
                             woken, result, rdata, stack, vtb_, vid_, vtb, vid, 
                             vp_, vc_t, vb_, vout, vmade, vrp, vrl_, vp_s, 
                             vc_s, vval, vx_, vc, vb_d, vx_d, vp_d, vc_, vcls, 
                             vrl_d, va_d, vb_de, vx_de, vdels, vdocs, vf_, 
                             vp_de, vtodo, vkeepl, vmarked, ve, vp_p, vf_p, 
                             vver, vp_g, vf_g, vx_g, vp_del, vf, vx_del, 
                             vp_delm, vp, vc_r, vrl, va, vb, vx >>

e2b(self) == /\ pc[self] = "e2b"
             /\ vb_' = [vb_ EXCEPT ![self] = cref[vc_t[self]].has]
             /\ ev' = Ev(self, "stat", P("cidref", vc_t[self]), NoPath, StatCid(vc_t[self]))
             /\ IF ~vb_'[self]
                   THEN /\ vout' = [vout EXCEPT ![self] = "exists"]
                        /\ pc' = [pc EXCEPT ![self] = "tgfin"]
                   ELSE /\ pc' = [pc EXCEPT ![self] = "e3a"]
                        /\ vout' = vout
             /\ UNCHANGED << obj, pref, cref, doc, mark, keep, locked, waitq, 
                             woken, result, rdata, stack, vtb_, vid_, vtb, vid, 
                             vp_, vc_t, va_, vmade, vrp, vrl_, vp_s, vc_s, 
                             vval, vx_, vc, vb_d, vx_d, vp_d, vc_, vcls, vrl_d, 
                             va_d, vb_de, vx_de, vdels, vdocs, vf_, vp_de, 
                             vtodo, vkeepl, vmarked, ve, vp_p, vf_p, vver, 
                             vp_g, vf_g, vx_g, vp_del, vf, vx_del, vp_delm, vp, 
                             vc_r, vrl, va, vb, vx >>

e3a(self) == /\ pc[self] = "e3a"
             /\ va_' = [va_ EXCEPT ![self] = pref[vp_[self]] # None]
             /\ ev' = Ev(self, "stat", P("pidref", vp_[self]), NoPath, FN(va_'[self]))
             /\ IF ~va_'[self]
                   THEN /\ pc' = [pc EXCEPT ![self] = "e3b"]
                   ELSE /\ pc' = [pc EXCEPT ![self] = "n1"]
             /\ UNCHANGED << obj, pref, cref, doc, mark, keep, locked, waitq, 
                             woken, result, rdata, stack, vtb_, vid_, vtb, vid, 
                             vp_, vc_t, vb_, vout, vmade, vrp, vrl_, vp_s, 
                             vc_s, vval, vx_, vc, vb_d, vx_d, vp_d, vc_, vcls, 
                             vrl_d, va_d, vb_de, vx_de, vdels, vdocs, vf_, 
                             vp_de, vtodo, vkeepl, vmarked, ve, vp_p, vf_p, 
                             vver, vp_g, vf_g, vx_g, vp_del, vf, vx_del, 
                             vp_delm, vp, vc_r, vrl, va, vb, vx >>

e3b(self) == /\ pc[self] = "e3b"
             /\ vb_' = [vb_ EXCEPT ![self] = cref[vc_t[self]].has]
             /\ ev' = Ev(self, "stat", P("cidref", vc_t[self]), NoPath, StatCid(vc_t[self]))
             /\ IF vb_'[self]
                   THEN /\ pc' = [pc EXCEPT ![self] = "cidonly"]
                   ELSE /\ pc' = [pc EXCEPT ![self] = "n1"]
             /\ UNCHANGED << obj, pref, cref, doc, mark, keep, locked, waitq, 
                             woken, result, rdata, stack, vtb_, vid_, vtb, vid, 
                             vp_, vc_t, va_, vout, vmade, vrp, vrl_, vp_s, 
                             vc_s, vval, vx_, vc, vb_d, vx_d, vp_d, vc_, vcls, 
                             vrl_d, va_d, vb_de, vx_de, vdels, vdocs, vf_, 
                             vp_de, vtodo, vkeepl, vmarked, ve, vp_p, vf_p, 
                             vver, vp_g, vf_g, vx_g, vp_del, vf, vx_del, 
                             vp_delm, vp, vc_r, vrl, va, vb, vx >>

n1(self) == /\ pc[self] = "n1"
            /\ vmade' = [vmade EXCEPT ![self] = TRUE]
            /\ ev' = Ev(self, "stat", P("pidref", vp_[self]), NoPath, FN(pref[vp_[self]] # None))
            /\ pc' = [pc EXCEPT ![self] = "n2"]
            /\ UNCHANGED << obj, pref, cref, doc, mark, keep, locked, waitq, 
                            woken, result, rdata, stack, vtb_, vid_, vtb, vid, 
                            vp_, vc_t, va_, vb_, vout, vrp, vrl_, vp_s, vc_s, 
                            vval, vx_, vc, vb_d, vx_d, vp_d, vc_, vcls, vrl_d, 
                            va_d, vb_de, vx_de, vdels, vdocs, vf_, vp_de, 
                            vtodo, vkeepl, vmarked, ve, vp_p, vf_p, vver, vp_g, 
                            vf_g, vx_g, vp_del, vf, vx_del, vp_delm, vp, vc_r, 
                            vrl, va, vb, vx >>

n2(self) == /\ pc[self] = "n2"
            /\ pref' = [pref EXCEPT ![vp_[self]] = vc_t[self]]
            /\ ev' = Ev(self, "rename", P("tmp", "refs"), P("pidref", vp_[self]), "ok")
            /\ pc' = [pc EXCEPT ![self] = "n3"]
            /\ UNCHANGED << obj, cref, doc, mark, keep, locked, waitq, woken, 
                            result, rdata, stack, vtb_, vid_, vtb, vid, vp_, 
                            vc_t, va_, vb_, vout, vmade, vrp, vrl_, vp_s, vc_s, 
                            vval, vx_, vc, vb_d, vx_d, vp_d, vc_, vcls, vrl_d, 
                            va_d, vb_de, vx_de, vdels, vdocs, vf_, vp_de, 
                            vtodo, vkeepl, vmarked, ve, vp_p, vf_p, vver, vp_g, 
                            vf_g, vx_g, vp_del, vf, vx_del, vp_delm, vp, vc_r, 
                            vrl, va, vb, vx >>

n3(self) == /\ pc[self] = "n3"
            /\ ev' = Ev(self, "stat", P("cidref", vc_t[self]), NoPath, StatCid(vc_t[self]))
            /\ pc' = [pc EXCEPT ![self] = "n4"]
            /\ UNCHANGED << obj, pref, cref, doc, mark, keep, locked, waitq, 
                            woken, result, rdata, stack, vtb_, vid_, vtb, vid, 
                            vp_, vc_t, va_, vb_, vout, vmade, vrp, vrl_, vp_s, 
                            vc_s, vval, vx_, vc, vb_d, vx_d, vp_d, vc_, vcls, 
                            vrl_d, va_d, vb_de, vx_de, vdels, vdocs, vf_, 
                            vp_de, vtodo, vkeepl, vmarked, ve, vp_p, vf_p, 
                            vver, vp_g, vf_g, vx_g, vp_del, vf, vx_del, 
                            vp_delm, vp, vc_r, vrl, va, vb, vx >>

n4(self) == /\ pc[self] = "n4"
            /\ cref' = [cref EXCEPT ![vc_t[self]] = List(<<vp_[self]>>)]
            /\ ev' = Ev(self, "rename", P("tmp", "refs"), P("cidref", vc_t[self]), "ok")
            /\ pc' = [pc EXCEPT ![self] = "verify"]
            /\ UNCHANGED << obj, pref, doc, mark, keep, locked, waitq, woken, 
                            result, rdata, stack, vtb_, vid_, vtb, vid, vp_, 
                            vc_t, va_, vb_, vout, vmade, vrp, vrl_, vp_s, vc_s, 
                            vval, vx_, vc, vb_d, vx_d, vp_d, vc_, vcls, vrl_d, 
                            va_d, vb_de, vx_de, vdels, vdocs, vf_, vp_de, 
                            vtodo, vkeepl, vmarked, ve, vp_p, vf_p, vver, vp_g, 
                            vf_g, vx_g, vp_del, vf, vx_del, vp_delm, vp, vc_r, 
                            vrl, va, vb, vx >>

cidonly(self) == /\ pc[self] = "cidonly"
                 /\ vmade' = [vmade EXCEPT ![self] = TRUE]
                 /\ ev' = Ev(self, "stat", P("pidref", vp_[self]), NoPath, FN(pref[vp_[self]] # None))
                 /\ pc' = [pc EXCEPT ![self] = "c2"]
                 /\ UNCHANGED << obj, pref, cref, doc, mark, keep, locked, 
                                 waitq, woken, result, rdata, stack, vtb_, 
                                 vid_, vtb, vid, vp_, vc_t, va_, vb_, vout, 
                                 vrp, vrl_, vp_s, vc_s, vval, vx_, vc, vb_d, 
                                 vx_d, vp_d, vc_, vcls, vrl_d, va_d, vb_de, 
                                 vx_de, vdels, vdocs, vf_, vp_de, vtodo, 
                                 vkeepl, vmarked, ve, vp_p, vf_p, vver, vp_g, 
                                 vf_g, vx_g, vp_del, vf, vx_del, vp_delm, vp, 
                                 vc_r, vrl, va, vb, vx >>

c2(self) == /\ pc[self] = "c2"
            /\ pref' = [pref EXCEPT ![vp_[self]] = vc_t[self]]
            /\ ev' = Ev(self, "rename", P("tmp", "refs"), P("pidref", vp_[self]), "ok")
            /\ pc' = [pc EXCEPT ![self] = "c3"]
            /\ UNCHANGED << obj, cref, doc, mark, keep, locked, waitq, woken, 
                            result, rdata, stack, vtb_, vid_, vtb, vid, vp_, 
                            vc_t, va_, vb_, vout, vmade, vrp, vrl_, vp_s, vc_s, 
                            vval, vx_, vc, vb_d, vx_d, vp_d, vc_, vcls, vrl_d, 
                            va_d, vb_de, vx_de, vdels, vdocs, vf_, vp_de, 
                            vtodo, vkeepl, vmarked, ve, vp_p, vf_p, vver, vp_g, 
                            vf_g, vx_g, vp_del, vf, vx_del, vp_delm, vp, vc_r, 
                            vrl, va, vb, vx >>

c3(self) == /\ pc[self] = "c3"
            /\ IF ~cref[vc_t[self]].has
                  THEN /\ vout' = [vout EXCEPT ![self] = "ioerror"]
                       /\ ev' = Ev(self, "read", P("cidref", vc_t[self]), NoPath, "!fnf")
                       /\ pc' = [pc EXCEPT ![self] = "untag"]
                       /\ vrl_' = vrl_
                  ELSE /\ vrl_' = [vrl_ EXCEPT ![self] = cref[vc_t[self]].pids]
                       /\ ev' = EvV(self, "read", P("cidref", vc_t[self]), NoPath, "ok", vrl_'[self])
                       /\ pc' = [pc EXCEPT ![self] = "c4"]
                       /\ vout' = vout
            /\ UNCHANGED << obj, pref, cref, doc, mark, keep, locked, waitq, 
                            woken, result, rdata, stack, vtb_, vid_, vtb, vid, 
                            vp_, vc_t, va_, vb_, vmade, vrp, vp_s, vc_s, vval, 
                            vx_, vc, vb_d, vx_d, vp_d, vc_, vcls, vrl_d, va_d, 
                            vb_de, vx_de, vdels, vdocs, vf_, vp_de, vtodo, 
                            vkeepl, vmarked, ve, vp_p, vf_p, vver, vp_g, vf_g, 
                            vx_g, vp_del, vf, vx_del, vp_delm, vp, vc_r, vrl, 
                            va, vb, vx >>

c4(self) == /\ pc[self] = "c4"
            /\ IF ~InSeq(vp_[self], vrl_[self])
                  THEN /\ vb_' = [vb_ EXCEPT ![self] = cref[vc_t[self]].has]
                       /\ ev' = Ev(self, "stat", P("cidref", vc_t[self]), NoPath, StatCid(vc_t[self]))
                       /\ IF ~vb_'[self]
                             THEN /\ vout' = [vout EXCEPT ![self] = "ioerror"]
                                  /\ pc' = [pc EXCEPT ![self] = "untag"]
                             ELSE /\ pc' = [pc EXCEPT ![self] = "c5"]
                                  /\ vout' = vout
                  ELSE /\ pc' = [pc EXCEPT ![self] = "c7"]
                       /\ UNCHANGED << ev, vb_, vout >>
            /\ UNCHANGED << obj, pref, cref, doc, mark, keep, locked, waitq, 
                            woken, result, rdata, stack, vtb_, vid_, vtb, vid, 
                            vp_, vc_t, va_, vmade, vrp, vrl_, vp_s, vc_s, vval, 
                            vx_, vc, vb_d, vx_d, vp_d, vc_, vcls, vrl_d, va_d, 
                            vb_de, vx_de, vdels, vdocs, vf_, vp_de, vtodo, 
                            vkeepl, vmarked, ve, vp_p, vf_p, vver, vp_g, vf_g, 
                            vx_g, vp_del, vf, vx_del, vp_delm, vp, vc_r, vrl, 
                            va, vb, vx >>

c5(self) == /\ pc[self] = "c5"
            /\ IF ~cref[vc_t[self]].has
                  THEN /\ vout' = [vout EXCEPT ![self] = "ioerror"]
                       /\ ev' = Ev(self, "read", P("cidref", vc_t[self]), NoPath, "!fnf")
                       /\ pc' = [pc EXCEPT ![self] = "untag"]
                       /\ vrl_' = vrl_
                  ELSE /\ vrl_' = [vrl_ EXCEPT ![self] = cref[vc_t[self]].pids]
                       /\ ev' = EvV(self, "read", P("cidref", vc_t[self]), NoPath, "ok", vrl_'[self])
                       /\ pc' = [pc EXCEPT ![self] = "c6"]
                       /\ vout' = vout
            /\ UNCHANGED << obj, pref, cref, doc, mark, keep, locked, waitq, 
                            woken, result, rdata, stack, vtb_, vid_, vtb, vid, 
                            vp_, vc_t, va_, vb_, vmade, vrp, vp_s, vc_s, vval, 
                            vx_, vc, vb_d, vx_d, vp_d, vc_, vcls, vrl_d, va_d, 
                            vb_de, vx_de, vdels, vdocs, vf_, vp_de, vtodo, 
                            vkeepl, vmarked, ve, vp_p, vf_p, vver, vp_g, vf_g, 
                            vx_g, vp_del, vf, vx_del, vp_delm, vp, vc_r, vrl, 
                            va, vb, vx >>

c6(self) == /\ pc[self] = "c6"
            /\ IF ~InSeq(vp_[self], vrl_[self])
                  THEN /\ IF ~cref[vc_t[self]].has
                             THEN /\ vout' = [vout EXCEPT ![self] = "ioerror"]
                                  /\ ev' = Ev(self, "append", P("cidref", vc_t[self]), NoPath, "!fnf")
                                  /\ pc' = [pc EXCEPT ![self] = "untag"]
                                  /\ cref' = cref
                             ELSE /\ cref' = [cref EXCEPT ![vc_t[self]] = List(Append(cref[vc_t[self]].pids, vp_[self]))]
                                  /\ ev' = Ev(self, "append", P("cidref", vc_t[self]), NoPath, "ok")
                                  /\ pc' = [pc EXCEPT ![self] = "c7"]
                                  /\ vout' = vout
                  ELSE /\ pc' = [pc EXCEPT ![self] = "c7"]
                       /\ UNCHANGED << cref, ev, vout >>
            /\ UNCHANGED << obj, pref, doc, mark, keep, locked, waitq, woken, 
                            result, rdata, stack, vtb_, vid_, vtb, vid, vp_, 
                            vc_t, va_, vb_, vmade, vrp, vrl_, vp_s, vc_s, vval, 
                            vx_, vc, vb_d, vx_d, vp_d, vc_, vcls, vrl_d, va_d, 
                            vb_de, vx_de, vdels, vdocs, vf_, vp_de, vtodo, 
                            vkeepl, vmarked, ve, vp_p, vf_p, vver, vp_g, vf_g, 
                            vx_g, vp_del, vf, vx_del, vp_delm, vp, vc_r, vrl, 
                            va, vb, vx >>

c7(self) == /\ pc[self] = "c7"
            /\ pc' = [pc EXCEPT ![self] = "verify"]
            /\ UNCHANGED << obj, pref, cref, doc, mark, keep, locked, waitq, 
                            woken, ev, result, rdata, stack, vtb_, vid_, vtb, 
                            vid, vp_, vc_t, va_, vb_, vout, vmade, vrp, vrl_, 
                            vp_s, vc_s, vval, vx_, vc, vb_d, vx_d, vp_d, vc_, 
                            vcls, vrl_d, va_d, vb_de, vx_de, vdels, vdocs, vf_, 
                            vp_de, vtodo, vkeepl, vmarked, ve, vp_p, vf_p, 
                            vver, vp_g, vf_g, vx_g, vp_del, vf, vx_del, 
                            vp_delm, vp, vc_r, vrl, va, vb, vx >>

both(self) == /\ pc[self] = "both"
              /\ vout' = [vout EXCEPT ![self] = "exists"]
              /\ pc' = [pc EXCEPT ![self] = "verify"]
              /\ UNCHANGED << obj, pref, cref, doc, mark, keep, locked, waitq, 
                              woken, ev, result, rdata, stack, vtb_, vid_, vtb, 
                              vid, vp_, vc_t, va_, vb_, vmade, vrp, vrl_, vp_s, 
                              vc_s, vval, vx_, vc, vb_d, vx_d, vp_d, vc_, vcls, 
                              vrl_d, va_d, vb_de, vx_de, vdels, vdocs, vf_, 
                              vp_de, vtodo, vkeepl, vmarked, ve, vp_p, vf_p, 
                              vver, vp_g, vf_g, vx_g, vp_del, vf, vx_del, 
                              vp_delm, vp, vc_r, vrl, va, vb, vx >>

verify(self) == /\ pc[self] = "verify"
                /\ va_' = [va_ EXCEPT ![self] = pref[vp_[self]] # None]
                /\ ev' = Ev(self, "stat", P("pidref", vp_[self]), NoPath, FN(va_'[self]))
                /\ IF ~va_'[self]
                      THEN /\ IF vout[self] = "ok"
                                 THEN /\ vout' = [vout EXCEPT ![self] = "other"]
                                      /\ pc' = [pc EXCEPT ![self] = "untag"]
                                 ELSE /\ pc' = [pc EXCEPT ![self] = "tgfin"]
                                      /\ vout' = vout
                      ELSE /\ pc' = [pc EXCEPT ![self] = "v2"]
                           /\ vout' = vout
                /\ UNCHANGED << obj, pref, cref, doc, mark, keep, locked, 
                                waitq, woken, result, rdata, stack, vtb_, vid_, 
                                vtb, vid, vp_, vc_t, vb_, vmade, vrp, vrl_, 
                                vp_s, vc_s, vval, vx_, vc, vb_d, vx_d, vp_d, 
                                vc_, vcls, vrl_d, va_d, vb_de, vx_de, vdels, 
                                vdocs, vf_, vp_de, vtodo, vkeepl, vmarked, ve, 
                                vp_p, vf_p, vver, vp_g, vf_g, vx_g, vp_del, vf, 
                                vx_del, vp_delm, vp, vc_r, vrl, va, vb, vx >>

v2(self) == /\ pc[self] = "v2"
            /\ vb_' = [vb_ EXCEPT ![self] = cref[vc_t[self]].has]
            /\ ev' = Ev(self, "stat", P("cidref", vc_t[self]), NoPath, StatCid(vc_t[self]))
            /\ IF ~vb_'[self]
                  THEN /\ IF vout[self] = "ok"
                             THEN /\ vout' = [vout EXCEPT ![self] = "other"]
                                  /\ pc' = [pc EXCEPT ![self] = "untag"]
                             ELSE /\ pc' = [pc EXCEPT ![self] = "tgfin"]
                                  /\ vout' = vout
                  ELSE /\ pc' = [pc EXCEPT ![self] = "v3"]
                       /\ vout' = vout
            /\ UNCHANGED << obj, pref, cref, doc, mark, keep, locked, waitq, 
                            woken, result, rdata, stack, vtb_, vid_, vtb, vid, 
                            vp_, vc_t, va_, vmade, vrp, vrl_, vp_s, vc_s, vval, 
                            vx_, vc, vb_d, vx_d, vp_d, vc_, vcls, vrl_d, va_d, 
                            vb_de, vx_de, vdels, vdocs, vf_, vp_de, vtodo, 
                            vkeepl, vmarked, ve, vp_p, vf_p, vver, vp_g, vf_g, 
                            vx_g, vp_del, vf, vx_del, vp_delm, vp, vc_r, vrl, 
                            va, vb, vx >>

v3(self) == /\ pc[self] = "v3"
            /\ IF pref[vp_[self]] = None
                  THEN /\ ev' = Ev(self, "read", P("pidref", vp_[self]), NoPath, "!fnf")
                       /\ IF vout[self] = "ok"
                             THEN /\ vout' = [vout EXCEPT ![self] = "ioerror"]
                                  /\ pc' = [pc EXCEPT ![self] = "untag"]
                             ELSE /\ pc' = [pc EXCEPT ![self] = "tgfin"]
                                  /\ vout' = vout
                       /\ vrp' = vrp
                  ELSE /\ vrp' = [vrp EXCEPT ![self] = pref[vp_[self]]]
                       /\ ev' = EvV(self, "read", P("pidref", vp_[self]), NoPath, "ok", <<vrp'[self]>>)
                       /\ pc' = [pc EXCEPT ![self] = "v3b"]
                       /\ vout' = vout
            /\ UNCHANGED << obj, pref, cref, doc, mark, keep, locked, waitq, 
                            woken, result, rdata, stack, vtb_, vid_, vtb, vid, 
                            vp_, vc_t, va_, vb_, vmade, vrl_, vp_s, vc_s, vval, 
                            vx_, vc, vb_d, vx_d, vp_d, vc_, vcls, vrl_d, va_d, 
                            vb_de, vx_de, vdels, vdocs, vf_, vp_de, vtodo, 
                            vkeepl, vmarked, ve, vp_p, vf_p, vver, vp_g, vf_g, 
                            vx_g, vp_del, vf, vx_del, vp_delm, vp, vc_r, vrl, 
                            va, vb, vx >>

v3b(self) == /\ pc[self] = "v3b"
             /\ IF vrp[self] # vc_t[self]
                   THEN /\ IF vout[self] = "ok"
                              THEN /\ vout' = [vout EXCEPT ![self] = "other"]
                                   /\ pc' = [pc EXCEPT ![self] = "untag"]
                              ELSE /\ pc' = [pc EXCEPT ![self] = "tgfin"]
                                   /\ vout' = vout
                   ELSE /\ pc' = [pc EXCEPT ![self] = "v4"]
                        /\ vout' = vout
             /\ UNCHANGED << obj, pref, cref, doc, mark, keep, locked, waitq, 
                             woken, ev, result, rdata, stack, vtb_, vid_, vtb, 
                             vid, vp_, vc_t, va_, vb_, vmade, vrp, vrl_, vp_s, 
                             vc_s, vval, vx_, vc, vb_d, vx_d, vp_d, vc_, vcls, 
                             vrl_d, va_d, vb_de, vx_de, vdels, vdocs, vf_, 
                             vp_de, vtodo, vkeepl, vmarked, ve, vp_p, vf_p, 
                             vver, vp_g, vf_g, vx_g, vp_del, vf, vx_del, 
                             vp_delm, vp, vc_r, vrl, va, vb, vx >>

v4(self) == /\ pc[self] = "v4"
            /\ IF ~cref[vc_t[self]].has
                  THEN /\ ev' = Ev(self, "read", P("cidref", vc_t[self]), NoPath, "!fnf")
                       /\ IF vout[self] = "ok"
                             THEN /\ vout' = [vout EXCEPT ![self] = "ioerror"]
                                  /\ pc' = [pc EXCEPT ![self] = "untag"]
                             ELSE /\ pc' = [pc EXCEPT ![self] = "tgfin"]
                                  /\ vout' = vout
                       /\ vrl_' = vrl_
                  ELSE /\ vrl_' = [vrl_ EXCEPT ![self] = cref[vc_t[self]].pids]
                       /\ ev' = EvV(self, "read", P("cidref", vc_t[self]), NoPath, "ok", vrl_'[self])
                       /\ pc' = [pc EXCEPT ![self] = "v4b"]
                       /\ vout' = vout
            /\ UNCHANGED << obj, pref, cref, doc, mark, keep, locked, waitq, 
                            woken, result, rdata, stack, vtb_, vid_, vtb, vid, 
                            vp_, vc_t, va_, vb_, vmade, vrp, vp_s, vc_s, vval, 
                            vx_, vc, vb_d, vx_d, vp_d, vc_, vcls, vrl_d, va_d, 
                            vb_de, vx_de, vdels, vdocs, vf_, vp_de, vtodo, 
                            vkeepl, vmarked, ve, vp_p, vf_p, vver, vp_g, vf_g, 
                            vx_g, vp_del, vf, vx_del, vp_delm, vp, vc_r, vrl, 
                            va, vb, vx >>

v4b(self) == /\ pc[self] = "v4b"
             /\ IF ~InSeq(vp_[self], vrl_[self]) /\ vout[self] = "ok"
                   THEN /\ vout' = [vout EXCEPT ![self] = "other"]
                        /\ pc' = [pc EXCEPT ![self] = "untag"]
                   ELSE /\ pc' = [pc EXCEPT ![self] = "v5"]
                        /\ vout' = vout
             /\ UNCHANGED << obj, pref, cref, doc, mark, keep, locked, waitq, 
                             woken, ev, result, rdata, stack, vtb_, vid_, vtb, 
                             vid, vp_, vc_t, va_, vb_, vmade, vrp, vrl_, vp_s, 
                             vc_s, vval, vx_, vc, vb_d, vx_d, vp_d, vc_, vcls, 
                             vrl_d, va_d, vb_de, vx_de, vdels, vdocs, vf_, 
                             vp_de, vtodo, vkeepl, vmarked, ve, vp_p, vf_p, 
                             vver, vp_g, vf_g, vx_g, vp_del, vf, vx_del, 
                             vp_delm, vp, vc_r, vrl, va, vb, vx >>

v5(self) == /\ pc[self] = "v5"
            /\ pc' = [pc EXCEPT ![self] = "tgfin"]
            /\ UNCHANGED << obj, pref, cref, doc, mark, keep, locked, waitq, 
                            woken, ev, result, rdata, stack, vtb_, vid_, vtb, 
                            vid, vp_, vc_t, va_, vb_, vout, vmade, vrp, vrl_, 
                            vp_s, vc_s, vval, vx_, vc, vb_d, vx_d, vp_d, vc_, 
                            vcls, vrl_d, va_d, vb_de, vx_de, vdels, vdocs, vf_, 
                            vp_de, vtodo, vkeepl, vmarked, ve, vp_p, vf_p, 
                            vver, vp_g, vf_g, vx_g, vp_del, vf, vx_del, 
                            vp_delm, vp, vc_r, vrl, va, vb, vx >>

untag(self) == /\ pc[self] = "untag"
               /\ IF vmade[self] /\ pref[vp_[self]] = vc_t[self]
                     THEN /\ pref' = [pref EXCEPT ![vp_[self]] = None]
                          /\ ev' = Ev(self, "untag", P("pidref", vp_[self]), NoPath, "ok")
                     ELSE /\ TRUE
                          /\ UNCHANGED << pref, ev >>
               /\ pc' = [pc EXCEPT ![self] = "u2"]
               /\ UNCHANGED << obj, cref, doc, mark, keep, locked, waitq, 
                               woken, result, rdata, stack, vtb_, vid_, vtb, 
                               vid, vp_, vc_t, va_, vb_, vout, vmade, vrp, 
                               vrl_, vp_s, vc_s, vval, vx_, vc, vb_d, vx_d, 
                               vp_d, vc_, vcls, vrl_d, va_d, vb_de, vx_de, 
                               vdels, vdocs, vf_, vp_de, vtodo, vkeepl, 
                               vmarked, ve, vp_p, vf_p, vver, vp_g, vf_g, vx_g, 
                               vp_del, vf, vx_del, vp_delm, vp, vc_r, vrl, va, 
                               vb, vx >>

u2(self) == /\ pc[self] = "u2"
            /\ IF vmade[self] /\ cref[vc_t[self]].has /\ InSeq(vp_[self], cref[vc_t[self]].pids)
                  THEN /\ cref' = [cref EXCEPT ![vc_t[self]] = IF Without(cref[vc_t[self]].pids, vp_[self]) = <<>> THEN NoList ELSE List(Without(cref[vc_t[self]].pids, vp_[self]))]
                       /\ ev' = Ev(self, "untag", P("cidref", vc_t[self]), NoPath, "ok")
                  ELSE /\ TRUE
                       /\ UNCHANGED << cref, ev >>
            /\ pc' = [pc EXCEPT ![self] = "tgfin"]
            /\ UNCHANGED << obj, pref, doc, mark, keep, locked, waitq, woken, 
                            result, rdata, stack, vtb_, vid_, vtb, vid, vp_, 
                            vc_t, va_, vb_, vout, vmade, vrp, vrl_, vp_s, vc_s, 
                            vval, vx_, vc, vb_d, vx_d, vp_d, vc_, vcls, vrl_d, 
                            va_d, vb_de, vx_de, vdels, vdocs, vf_, vp_de, 
                            vtodo, vkeepl, vmarked, ve, vp_p, vf_p, vver, vp_g, 
                            vf_g, vx_g, vp_del, vf, vx_del, vp_delm, vp, vc_r, 
                            vrl, va, vb, vx >>

tgfin(self) == /\ pc[self] = "tgfin"
               /\ /\ stack' = [stack EXCEPT ![self] = << [ procedure |->  "release",
                                                           pc        |->  "tg9",
                                                           vtb       |->  vtb[self],
                                                           vid       |->  vid[self] ] >>
                                                       \o stack[self]]
                  /\ vid' = [vid EXCEPT ![self] = vc_t[self]]
                  /\ vtb' = [vtb EXCEPT ![self] = "cid"]
               /\ pc' = [pc EXCEPT ![self] = "rl1"]
               /\ UNCHANGED << obj, pref, cref, doc, mark, keep, locked, waitq, 
                               woken, ev, result, rdata, vtb_, vid_, vp_, vc_t, 
                               va_, vb_, vout, vmade, vrp, vrl_, vp_s, vc_s, 
                               vval, vx_, vc, vb_d, vx_d, vp_d, vc_, vcls, 
                               vrl_d, va_d, vb_de, vx_de, vdels, vdocs, vf_, 
                               vp_de, vtodo, vkeepl, vmarked, ve, vp_p, vf_p, 
                               vver, vp_g, vf_g, vx_g, vp_del, vf, vx_del, 
                               vp_delm, vp, vc_r, vrl, va, vb, vx >>

tg9(self) == /\ pc[self] = "tg9"
             /\ /\ stack' = [stack EXCEPT ![self] = << [ procedure |->  "release",
                                                         pc        |->  "tg10",
                                                         vtb       |->  vtb[self],
                                                         vid       |->  vid[self] ] >>
                                                     \o stack[self]]
                /\ vid' = [vid EXCEPT ![self] = vp_[self]]
                /\ vtb' = [vtb EXCEPT ![self] = "refpid"]
             /\ pc' = [pc EXCEPT ![self] = "rl1"]
             /\ UNCHANGED << obj, pref, cref, doc, mark, keep, locked, waitq, 
                             woken, ev, result, rdata, vtb_, vid_, vp_, vc_t, 
                             va_, vb_, vout, vmade, vrp, vrl_, vp_s, vc_s, 
                             vval, vx_, vc, vb_d, vx_d, vp_d, vc_, vcls, vrl_d, 
                             va_d, vb_de, vx_de, vdels, vdocs, vf_, vp_de, 
                             vtodo, vkeepl, vmarked, ve, vp_p, vf_p, vver, 
                             vp_g, vf_g, vx_g, vp_del, vf, vx_del, vp_delm, vp, 
                             vc_r, vrl, va, vb, vx >>

tg10(self) == /\ pc[self] = "tg10"
              /\ result' = [result EXCEPT ![self] = vout[self]]
              /\ IF vout[self] = "ok" /\ Job[self].op = "store"
                    THEN /\ rdata' = [rdata EXCEPT ![self] = vc_t[self]]
                    ELSE /\ TRUE
                         /\ rdata' = rdata
              /\ pc' = [pc EXCEPT ![self] = Head(stack[self]).pc]
              /\ va_' = [va_ EXCEPT ![self] = Head(stack[self]).va_]
              /\ vb_' = [vb_ EXCEPT ![self] = Head(stack[self]).vb_]
              /\ vout' = [vout EXCEPT ![self] = Head(stack[self]).vout]
              /\ vmade' = [vmade EXCEPT ![self] = Head(stack[self]).vmade]
              /\ vrp' = [vrp EXCEPT ![self] = Head(stack[self]).vrp]
              /\ vrl_' = [vrl_ EXCEPT ![self] = Head(stack[self]).vrl_]
              /\ vp_' = [vp_ EXCEPT ![self] = Head(stack[self]).vp_]
              /\ vc_t' = [vc_t EXCEPT ![self] = Head(stack[self]).vc_t]
              /\ stack' = [stack EXCEPT ![self] = Tail(stack[self])]
              /\ UNCHANGED << obj, pref, cref, doc, mark, keep, locked, waitq, 
                              woken, ev, vtb_, vid_, vtb, vid, vp_s, vc_s, 
                              vval, vx_, vc, vb_d, vx_d, vp_d, vc_, vcls, 
                              vrl_d, va_d, vb_de, vx_de, vdels, vdocs, vf_, 
                              vp_de, vtodo, vkeepl, vmarked, ve, vp_p, vf_p, 
                              vver, vp_g, vf_g, vx_g, vp_del, vf, vx_del, 
                              vp_delm, vp, vc_r, vrl, va, vb, vx >>

tag(self) == tg1(self) \/ tg2(self) \/ e1a(self) \/ e1b(self) \/ e2a(self)
                \/ e2b(self) \/ e3a(self) \/ e3b(self) \/ n1(self)
                \/ n2(self) \/ n3(self) \/ n4(self) \/ cidonly(self)
                \/ c2(self) \/ c3(self) \/ c4(self) \/ c5(self) \/ c6(self)
                \/ c7(self) \/ both(self) \/ verify(self) \/ v2(self)
                \/ v3(self) \/ v3b(self) \/ v4(self) \/ v4b(self)
                \/ v5(self) \/ untag(self) \/ u2(self) \/ tgfin(self)
                \/ tg9(self) \/ tg10(self)

st1(self) == /\ pc[self] = "st1"
             /\ IF vp_s[self] # "-"
                   THEN /\ ev' = Ev(self, "sec", <<"lock", "L1">>, NoPath, "peek")
                        /\ IF InL("objpid", vp_s[self])
                              THEN /\ result' = [result EXCEPT ![self] = "inprogress"]
                                   /\ pc' = [pc EXCEPT ![self] = Head(stack[self]).pc]
                                   /\ vx_' = [vx_ EXCEPT ![self] = Head(stack[self]).vx_]
                                   /\ vp_s' = [vp_s EXCEPT ![self] = Head(stack[self]).vp_s]
                                   /\ vc_s' = [vc_s EXCEPT ![self] = Head(stack[self]).vc_s]
                                   /\ vval' = [vval EXCEPT ![self] = Head(stack[self]).vval]
                                   /\ stack' = [stack EXCEPT ![self] = Tail(stack[self])]
                              ELSE /\ pc' = [pc EXCEPT ![self] = "st2"]
                                   /\ UNCHANGED << result, stack, vp_s, vc_s, 
                                                   vval, vx_ >>
                   ELSE /\ pc' = [pc EXCEPT ![self] = "st3"]
                        /\ UNCHANGED << ev, result, stack, vp_s, vc_s, vval, 
                                        vx_ >>
             /\ UNCHANGED << obj, pref, cref, doc, mark, keep, locked, waitq, 
                             woken, rdata, vtb_, vid_, vtb, vid, vp_, vc_t, 
                             va_, vb_, vout, vmade, vrp, vrl_, vc, vb_d, vx_d, 
                             vp_d, vc_, vcls, vrl_d, va_d, vb_de, vx_de, vdels, 
                             vdocs, vf_, vp_de, vtodo, vkeepl, vmarked, ve, 
                             vp_p, vf_p, vver, vp_g, vf_g, vx_g, vp_del, vf, 
                             vx_del, vp_delm, vp, vc_r, vrl, va, vb, vx >>

st2(self) == /\ pc[self] = "st2"
             /\ /\ stack' = [stack EXCEPT ![self] = << [ procedure |->  "claim",
                                                         pc        |->  "st3",
                                                         vtb_      |->  vtb_[self],
                                                         vid_      |->  vid_[self] ] >>
                                                     \o stack[self]]
                /\ vid_' = [vid_ EXCEPT ![self] = vp_s[self]]
                /\ vtb_' = [vtb_ EXCEPT ![self] = "objpid"]
             /\ pc' = [pc EXCEPT ![self] = "cl1"]
             /\ UNCHANGED << obj, pref, cref, doc, mark, keep, locked, waitq, 
                             woken, ev, result, rdata, vtb, vid, vp_, vc_t, 
                             va_, vb_, vout, vmade, vrp, vrl_, vp_s, vc_s, 
                             vval, vx_, vc, vb_d, vx_d, vp_d, vc_, vcls, vrl_d, 
                             va_d, vb_de, vx_de, vdels, vdocs, vf_, vp_de, 
                             vtodo, vkeepl, vmarked, ve, vp_p, vf_p, vver, 
                             vp_g, vf_g, vx_g, vp_del, vf, vx_del, vp_delm, vp, 
                             vc_r, vrl, va, vb, vx >>

st3(self) == /\ pc[self] = "st3"
             /\ vx_' = [vx_ EXCEPT ![self] = obj[vc_s[self]] = "ok"]
             /\ ev' = Ev(self, "stat", P("obj", vc_s[self]), NoPath, FN(vx_'[self]))
             /\ IF vval[self] \in {"badsum", "badsize"}
                   THEN /\ result' = [result EXCEPT ![self] = vval[self]]
                        /\ pc' = [pc EXCEPT ![self] = "st7"]
                   ELSE /\ pc' = [pc EXCEPT ![self] = "st3b"]
                        /\ UNCHANGED result
             /\ UNCHANGED << obj, pref, cref, doc, mark, keep, locked, waitq, 
                             woken, rdata, stack, vtb_, vid_, vtb, vid, vp_, 
                             vc_t, va_, vb_, vout, vmade, vrp, vrl_, vp_s, 
                             vc_s, vval, vc, vb_d, vx_d, vp_d, vc_, vcls, 
                             vrl_d, va_d, vb_de, vx_de, vdels, vdocs, vf_, 
                             vp_de, vtodo, vkeepl, vmarked, ve, vp_p, vf_p, 
                             vver, vp_g, vf_g, vx_g, vp_del, vf, vx_del, 
                             vp_delm, vp, vc_r, vrl, va, vb, vx >>

st3b(self) == /\ pc[self] = "st3b"
              /\ IF ~vx_[self]
                    THEN /\ pc' = [pc EXCEPT ![self] = "st4"]
                    ELSE /\ pc' = [pc EXCEPT ![self] = "st6"]
              /\ UNCHANGED << obj, pref, cref, doc, mark, keep, locked, waitq, 
                              woken, ev, result, rdata, stack, vtb_, vid_, vtb, 
                              vid, vp_, vc_t, va_, vb_, vout, vmade, vrp, vrl_, 
                              vp_s, vc_s, vval, vx_, vc, vb_d, vx_d, vp_d, vc_, 
                              vcls, vrl_d, va_d, vb_de, vx_de, vdels, vdocs, 
                              vf_, vp_de, vtodo, vkeepl, vmarked, ve, vp_p, 
                              vf_p, vver, vp_g, vf_g, vx_g, vp_del, vf, vx_del, 
                              vp_delm, vp, vc_r, vrl, va, vb, vx >>

st4(self) == /\ pc[self] = "st4"
             /\ ev' = Ev(self, "stat", P("obj", vc_s[self]), NoPath, FN(obj[vc_s[self]] = "ok"))
             /\ pc' = [pc EXCEPT ![self] = "st5"]
             /\ UNCHANGED << obj, pref, cref, doc, mark, keep, locked, waitq, 
                             woken, result, rdata, stack, vtb_, vid_, vtb, vid, 
                             vp_, vc_t, va_, vb_, vout, vmade, vrp, vrl_, vp_s, 
                             vc_s, vval, vx_, vc, vb_d, vx_d, vp_d, vc_, vcls, 
                             vrl_d, va_d, vb_de, vx_de, vdels, vdocs, vf_, 
                             vp_de, vtodo, vkeepl, vmarked, ve, vp_p, vf_p, 
                             vver, vp_g, vf_g, vx_g, vp_del, vf, vx_del, 
                             vp_delm, vp, vc_r, vrl, va, vb, vx >>

st5(self) == /\ pc[self] = "st5"
             /\ obj' = [obj EXCEPT ![vc_s[self]] = "ok"]
             /\ ev' = Ev(self, "rename", P("tmp", "objects"), P("obj", vc_s[self]), "ok")
             /\ pc' = [pc EXCEPT ![self] = "st6"]
             /\ UNCHANGED << pref, cref, doc, mark, keep, locked, waitq, woken, 
                             result, rdata, stack, vtb_, vid_, vtb, vid, vp_, 
                             vc_t, va_, vb_, vout, vmade, vrp, vrl_, vp_s, 
                             vc_s, vval, vx_, vc, vb_d, vx_d, vp_d, vc_, vcls, 
                             vrl_d, va_d, vb_de, vx_de, vdels, vdocs, vf_, 
                             vp_de, vtodo, vkeepl, vmarked, ve, vp_p, vf_p, 
                             vver, vp_g, vf_g, vx_g, vp_del, vf, vx_del, 
                             vp_delm, vp, vc_r, vrl, va, vb, vx >>

st6(self) == /\ pc[self] = "st6"
             /\ IF vp_s[self] = "-"
                   THEN /\ result' = [result EXCEPT ![self] = "ok"]
                        /\ rdata' = [rdata EXCEPT ![self] = vc_s[self]]
                        /\ pc' = [pc EXCEPT ![self] = Head(stack[self]).pc]
                        /\ vx_' = [vx_ EXCEPT ![self] = Head(stack[self]).vx_]
                        /\ vp_s' = [vp_s EXCEPT ![self] = Head(stack[self]).vp_s]
                        /\ vc_s' = [vc_s EXCEPT ![self] = Head(stack[self]).vc_s]
                        /\ vval' = [vval EXCEPT ![self] = Head(stack[self]).vval]
                        /\ stack' = [stack EXCEPT ![self] = Tail(stack[self])]
                        /\ UNCHANGED << vp_, vc_t, va_, vb_, vout, vmade, vrp, 
                                        vrl_ >>
                   ELSE /\ /\ stack' = [stack EXCEPT ![self] = << [ procedure |->  "tag",
                                                                    pc        |->  "st6b",
                                                                    va_       |->  va_[self],
                                                                    vb_       |->  vb_[self],
                                                                    vout      |->  vout[self],
                                                                    vmade     |->  vmade[self],
                                                                    vrp       |->  vrp[self],
                                                                    vrl_      |->  vrl_[self],
                                                                    vp_       |->  vp_[self],
                                                                    vc_t      |->  vc_t[self] ] >>
                                                                \o stack[self]]
                           /\ vc_t' = [vc_t EXCEPT ![self] = vc_s[self]]
                           /\ vp_' = [vp_ EXCEPT ![self] = vp_s[self]]
                        /\ va_' = [va_ EXCEPT ![self] = FALSE]
                        /\ vb_' = [vb_ EXCEPT ![self] = FALSE]
                        /\ vout' = [vout EXCEPT ![self] = "ok"]
                        /\ vmade' = [vmade EXCEPT ![self] = FALSE]
                        /\ vrp' = [vrp EXCEPT ![self] = None]
                        /\ vrl_' = [vrl_ EXCEPT ![self] = <<>>]
                        /\ pc' = [pc EXCEPT ![self] = "tg1"]
                        /\ UNCHANGED << result, rdata, vp_s, vc_s, vval, vx_ >>
             /\ UNCHANGED << obj, pref, cref, doc, mark, keep, locked, waitq, 
                             woken, ev, vtb_, vid_, vtb, vid, vc, vb_d, vx_d, 
                             vp_d, vc_, vcls, vrl_d, va_d, vb_de, vx_de, vdels, 
                             vdocs, vf_, vp_de, vtodo, vkeepl, vmarked, ve, 
                             vp_p, vf_p, vver, vp_g, vf_g, vx_g, vp_del, vf, 
                             vx_del, vp_delm, vp, vc_r, vrl, va, vb, vx >>

st6b(self) == /\ pc[self] = "st6b"
              /\ IF result[self] \in {"ok", "exists"}
                    THEN /\ vx_' = [vx_ EXCEPT ![self] = obj[vc_s[self]] = "ok"]
                         /\ ev' = Ev(self, "stat", P("obj", vc_s[self]), NoPath, FN(vx_'[self]))
                         /\ IF ~vx_'[self]
                               THEN /\ pc' = [pc EXCEPT ![self] = "st6c"]
                               ELSE /\ pc' = [pc EXCEPT ![self] = "st7"]
                    ELSE /\ pc' = [pc EXCEPT ![self] = "st7"]
                         /\ UNCHANGED << ev, vx_ >>
              /\ UNCHANGED << obj, pref, cref, doc, mark, keep, locked, waitq, 
                              woken, result, rdata, stack, vtb_, vid_, vtb, 
                              vid, vp_, vc_t, va_, vb_, vout, vmade, vrp, vrl_, 
                              vp_s, vc_s, vval, vc, vb_d, vx_d, vp_d, vc_, 
                              vcls, vrl_d, va_d, vb_de, vx_de, vdels, vdocs, 
                              vf_, vp_de, vtodo, vkeepl, vmarked, ve, vp_p, 
                              vf_p, vver, vp_g, vf_g, vx_g, vp_del, vf, vx_del, 
                              vp_delm, vp, vc_r, vrl, va, vb, vx >>

st6c(self) == /\ pc[self] = "st6c"
              /\ ev' = Ev(self, "stat", P("obj", vc_s[self]), NoPath, FN(obj[vc_s[self]] = "ok"))
              /\ pc' = [pc EXCEPT ![self] = "st6d"]
              /\ UNCHANGED << obj, pref, cref, doc, mark, keep, locked, waitq, 
                              woken, result, rdata, stack, vtb_, vid_, vtb, 
                              vid, vp_, vc_t, va_, vb_, vout, vmade, vrp, vrl_, 
                              vp_s, vc_s, vval, vx_, vc, vb_d, vx_d, vp_d, vc_, 
                              vcls, vrl_d, va_d, vb_de, vx_de, vdels, vdocs, 
                              vf_, vp_de, vtodo, vkeepl, vmarked, ve, vp_p, 
                              vf_p, vver, vp_g, vf_g, vx_g, vp_del, vf, vx_del, 
                              vp_delm, vp, vc_r, vrl, va, vb, vx >>

st6d(self) == /\ pc[self] = "st6d"
              /\ vx_' = [vx_ EXCEPT ![self] = obj[vc_s[self]] = "ok"]
              /\ ev' = Ev(self, "stat", P("obj", vc_s[self]), NoPath, FN(vx_'[self]))
              /\ IF ~vx_'[self]
                    THEN /\ pc' = [pc EXCEPT ![self] = "st6e"]
                    ELSE /\ pc' = [pc EXCEPT ![self] = "st7"]
              /\ UNCHANGED << obj, pref, cref, doc, mark, keep, locked, waitq, 
                              woken, result, rdata, stack, vtb_, vid_, vtb, 
                              vid, vp_, vc_t, va_, vb_, vout, vmade, vrp, vrl_, 
                              vp_s, vc_s, vval, vc, vb_d, vx_d, vp_d, vc_, 
                              vcls, vrl_d, va_d, vb_de, vx_de, vdels, vdocs, 
                              vf_, vp_de, vtodo, vkeepl, vmarked, ve, vp_p, 
                              vf_p, vver, vp_g, vf_g, vx_g, vp_del, vf, vx_del, 
                              vp_delm, vp, vc_r, vrl, va, vb, vx >>

st6e(self) == /\ pc[self] = "st6e"
              /\ ev' = Ev(self, "stat", P("obj", vc_s[self]), NoPath, FN(obj[vc_s[self]] = "ok"))
              /\ pc' = [pc EXCEPT ![self] = "st6f"]
              /\ UNCHANGED << obj, pref, cref, doc, mark, keep, locked, waitq, 
                              woken, result, rdata, stack, vtb_, vid_, vtb, 
                              vid, vp_, vc_t, va_, vb_, vout, vmade, vrp, vrl_, 
                              vp_s, vc_s, vval, vx_, vc, vb_d, vx_d, vp_d, vc_, 
                              vcls, vrl_d, va_d, vb_de, vx_de, vdels, vdocs, 
                              vf_, vp_de, vtodo, vkeepl, vmarked, ve, vp_p, 
                              vf_p, vver, vp_g, vf_g, vx_g, vp_del, vf, vx_del, 
                              vp_delm, vp, vc_r, vrl, va, vb, vx >>

st6f(self) == /\ pc[self] = "st6f"
              /\ obj' = [obj EXCEPT ![vc_s[self]] = "ok"]
              /\ ev' = Ev(self, "rename", P("tmp", "objects"), P("obj", vc_s[self]), "ok")
              /\ pc' = [pc EXCEPT ![self] = "st7"]
              /\ UNCHANGED << pref, cref, doc, mark, keep, locked, waitq, 
                              woken, result, rdata, stack, vtb_, vid_, vtb, 
                              vid, vp_, vc_t, va_, vb_, vout, vmade, vrp, vrl_, 
                              vp_s, vc_s, vval, vx_, vc, vb_d, vx_d, vp_d, vc_, 
                              vcls, vrl_d, va_d, vb_de, vx_de, vdels, vdocs, 
                              vf_, vp_de, vtodo, vkeepl, vmarked, ve, vp_p, 
                              vf_p, vver, vp_g, vf_g, vx_g, vp_del, vf, vx_del, 
                              vp_delm, vp, vc_r, vrl, va, vb, vx >>

st7(self) == /\ pc[self] = "st7"
             /\ /\ stack' = [stack EXCEPT ![self] = << [ procedure |->  "release",
                                                         pc        |->  "st8",
                                                         vtb       |->  vtb[self],
                                                         vid       |->  vid[self] ] >>
                                                     \o stack[self]]
                /\ vid' = [vid EXCEPT ![self] = vp_s[self]]
                /\ vtb' = [vtb EXCEPT ![self] = "objpid"]
             /\ pc' = [pc EXCEPT ![self] = "rl1"]
             /\ UNCHANGED << obj, pref, cref, doc, mark, keep, locked, waitq, 
                             woken, ev, result, rdata, vtb_, vid_, vp_, vc_t, 
                             va_, vb_, vout, vmade, vrp, vrl_, vp_s, vc_s, 
                             vval, vx_, vc, vb_d, vx_d, vp_d, vc_, vcls, vrl_d, 
                             va_d, vb_de, vx_de, vdels, vdocs, vf_, vp_de, 
                             vtodo, vkeepl, vmarked, ve, vp_p, vf_p, vver, 
                             vp_g, vf_g, vx_g, vp_del, vf, vx_del, vp_delm, vp, 
                             vc_r, vrl, va, vb, vx >>

st8(self) == /\ pc[self] = "st8"
             /\ pc' = [pc EXCEPT ![self] = Head(stack[self]).pc]
             /\ vx_' = [vx_ EXCEPT ![self] = Head(stack[self]).vx_]
             /\ vp_s' = [vp_s EXCEPT ![self] = Head(stack[self]).vp_s]
             /\ vc_s' = [vc_s EXCEPT ![self] = Head(stack[self]).vc_s]
             /\ vval' = [vval EXCEPT ![self] = Head(stack[self]).vval]
             /\ stack' = [stack EXCEPT ![self] = Tail(stack[self])]
             /\ UNCHANGED << obj, pref, cref, doc, mark, keep, locked, waitq, 
                             woken, ev, result, rdata, vtb_, vid_, vtb, vid, 
                             vp_, vc_t, va_, vb_, vout, vmade, vrp, vrl_, vc, 
                             vb_d, vx_d, vp_d, vc_, vcls, vrl_d, va_d, vb_de, 
                             vx_de, vdels, vdocs, vf_, vp_de, vtodo, vkeepl, 
                             vmarked, ve, vp_p, vf_p, vver, vp_g, vf_g, vx_g, 
                             vp_del, vf, vx_del, vp_delm, vp, vc_r, vrl, va, 
                             vb, vx >>

store(self) == st1(self) \/ st2(self) \/ st3(self) \/ st3b(self)
                  \/ st4(self) \/ st5(self) \/ st6(self) \/ st6b(self)
                  \/ st6c(self) \/ st6d(self) \/ st6e(self) \/ st6f(self)
                  \/ st7(self) \/ st8(self)

di1(self) == /\ pc[self] = "di1"
             /\ /\ stack' = [stack EXCEPT ![self] = << [ procedure |->  "claim",
                                                         pc        |->  "di2",
                                                         vtb_      |->  vtb_[self],
                                                         vid_      |->  vid_[self] ] >>
                                                     \o stack[self]]
                /\ vid_' = [vid_ EXCEPT ![self] = vc[self]]
                /\ vtb_' = [vtb_ EXCEPT ![self] = "cid"]
             /\ pc' = [pc EXCEPT ![self] = "cl1"]
             /\ UNCHANGED << obj, pref, cref, doc, mark, keep, locked, waitq, 
                             woken, ev, result, rdata, vtb, vid, vp_, vc_t, 
                             va_, vb_, vout, vmade, vrp, vrl_, vp_s, vc_s, 
                             vval, vx_, vc, vb_d, vx_d, vp_d, vc_, vcls, vrl_d, 
                             va_d, vb_de, vx_de, vdels, vdocs, vf_, vp_de, 
                             vtodo, vkeepl, vmarked, ve, vp_p, vf_p, vver, 
                             vp_g, vf_g, vx_g, vp_del, vf, vx_del, vp_delm, vp, 
                             vc_r, vrl, va, vb, vx >>

di2(self) == /\ pc[self] = "di2"
             /\ vb_d' = [vb_d EXCEPT ![self] = cref[vc[self]].has]
             /\ ev' = Ev(self, "stat", P("cidref", vc[self]), NoPath, StatCid(vc[self]))
             /\ IF ~vb_d'[self]
                   THEN /\ pc' = [pc EXCEPT ![self] = "di3"]
                        /\ UNCHANGED result
                   ELSE /\ result' = [result EXCEPT ![self] = "badsum"]
                        /\ pc' = [pc EXCEPT ![self] = "di5"]
             /\ UNCHANGED << obj, pref, cref, doc, mark, keep, locked, waitq, 
                             woken, rdata, stack, vtb_, vid_, vtb, vid, vp_, 
                             vc_t, va_, vb_, vout, vmade, vrp, vrl_, vp_s, 
                             vc_s, vval, vx_, vc, vx_d, vp_d, vc_, vcls, vrl_d, 
                             va_d, vb_de, vx_de, vdels, vdocs, vf_, vp_de, 
                             vtodo, vkeepl, vmarked, ve, vp_p, vf_p, vver, 
                             vp_g, vf_g, vx_g, vp_del, vf, vx_del, vp_delm, vp, 
                             vc_r, vrl, va, vb, vx >>

di3(self) == /\ pc[self] = "di3"
             /\ vx_d' = [vx_d EXCEPT ![self] = obj[vc[self]] = "ok"]
             /\ ev' = Ev(self, "stat", P("obj", vc[self]), NoPath, FN(vx_d'[self]))
             /\ IF vx_d'[self]
                   THEN /\ pc' = [pc EXCEPT ![self] = "di4"]
                   ELSE /\ pc' = [pc EXCEPT ![self] = "di3b"]
             /\ UNCHANGED << obj, pref, cref, doc, mark, keep, locked, waitq, 
                             woken, result, rdata, stack, vtb_, vid_, vtb, vid, 
                             vp_, vc_t, va_, vb_, vout, vmade, vrp, vrl_, vp_s, 
                             vc_s, vval, vx_, vc, vb_d, vp_d, vc_, vcls, vrl_d, 
                             va_d, vb_de, vx_de, vdels, vdocs, vf_, vp_de, 
                             vtodo, vkeepl, vmarked, ve, vp_p, vf_p, vver, 
                             vp_g, vf_g, vx_g, vp_del, vf, vx_del, vp_delm, vp, 
                             vc_r, vrl, va, vb, vx >>

di4(self) == /\ pc[self] = "di4"
             /\ IF obj[vc[self]] = "ok"
                   THEN /\ obj' = [obj EXCEPT ![vc[self]] = "absent"]
                        /\ ev' = Ev(self, "remove", P("obj", vc[self]), NoPath, "ok")
                        /\ result' = [result EXCEPT ![self] = "badsum"]
                   ELSE /\ ev' = Ev(self, "remove", P("obj", vc[self]), NoPath, "!fnf")
                        /\ result' = [result EXCEPT ![self] = "ioerror"]
                        /\ obj' = obj
             /\ pc' = [pc EXCEPT ![self] = "di5"]
             /\ UNCHANGED << pref, cref, doc, mark, keep, locked, waitq, woken, 
                             rdata, stack, vtb_, vid_, vtb, vid, vp_, vc_t, 
                             va_, vb_, vout, vmade, vrp, vrl_, vp_s, vc_s, 
                             vval, vx_, vc, vb_d, vx_d, vp_d, vc_, vcls, vrl_d, 
                             va_d, vb_de, vx_de, vdels, vdocs, vf_, vp_de, 
                             vtodo, vkeepl, vmarked, ve, vp_p, vf_p, vver, 
                             vp_g, vf_g, vx_g, vp_del, vf, vx_del, vp_delm, vp, 
                             vc_r, vrl, va, vb, vx >>

di3b(self) == /\ pc[self] = "di3b"
              /\ ev' = Ev(self, "stat", P("obj", vc[self]), NoPath, FN(obj[vc[self]] = "ok"))
              /\ result' = [result EXCEPT ![self] = "ioerror"]
              /\ pc' = [pc EXCEPT ![self] = "di5"]
              /\ UNCHANGED << obj, pref, cref, doc, mark, keep, locked, waitq, 
                              woken, rdata, stack, vtb_, vid_, vtb, vid, vp_, 
                              vc_t, va_, vb_, vout, vmade, vrp, vrl_, vp_s, 
                              vc_s, vval, vx_, vc, vb_d, vx_d, vp_d, vc_, vcls, 
                              vrl_d, va_d, vb_de, vx_de, vdels, vdocs, vf_, 
                              vp_de, vtodo, vkeepl, vmarked, ve, vp_p, vf_p, 
                              vver, vp_g, vf_g, vx_g, vp_del, vf, vx_del, 
                              vp_delm, vp, vc_r, vrl, va, vb, vx >>

di5(self) == /\ pc[self] = "di5"
             /\ /\ stack' = [stack EXCEPT ![self] = << [ procedure |->  "release",
                                                         pc        |->  "di6",
                                                         vtb       |->  vtb[self],
                                                         vid       |->  vid[self] ] >>
                                                     \o stack[self]]
                /\ vid' = [vid EXCEPT ![self] = vc[self]]
                /\ vtb' = [vtb EXCEPT ![self] = "cid"]
             /\ pc' = [pc EXCEPT ![self] = "rl1"]
             /\ UNCHANGED << obj, pref, cref, doc, mark, keep, locked, waitq, 
                             woken, ev, result, rdata, vtb_, vid_, vp_, vc_t, 
                             va_, vb_, vout, vmade, vrp, vrl_, vp_s, vc_s, 
                             vval, vx_, vc, vb_d, vx_d, vp_d, vc_, vcls, vrl_d, 
                             va_d, vb_de, vx_de, vdels, vdocs, vf_, vp_de, 
                             vtodo, vkeepl, vmarked, ve, vp_p, vf_p, vver, 
                             vp_g, vf_g, vx_g, vp_del, vf, vx_del, vp_delm, vp, 
                             vc_r, vrl, va, vb, vx >>

di6(self) == /\ pc[self] = "di6"
             /\ pc' = [pc EXCEPT ![self] = Head(stack[self]).pc]
             /\ vb_d' = [vb_d EXCEPT ![self] = Head(stack[self]).vb_d]
             /\ vx_d' = [vx_d EXCEPT ![self] = Head(stack[self]).vx_d]
             /\ vc' = [vc EXCEPT ![self] = Head(stack[self]).vc]
             /\ stack' = [stack EXCEPT ![self] = Tail(stack[self])]
             /\ UNCHANGED << obj, pref, cref, doc, mark, keep, locked, waitq, 
                             woken, ev, result, rdata, vtb_, vid_, vtb, vid, 
                             vp_, vc_t, va_, vb_, vout, vmade, vrp, vrl_, vp_s, 
                             vc_s, vval, vx_, vp_d, vc_, vcls, vrl_d, va_d, 
                             vb_de, vx_de, vdels, vdocs, vf_, vp_de, vtodo, 
                             vkeepl, vmarked, ve, vp_p, vf_p, vver, vp_g, vf_g, 
                             vx_g, vp_del, vf, vx_del, vp_delm, vp, vc_r, vrl, 
                             va, vb, vx >>

diibad(self) == di1(self) \/ di2(self) \/ di3(self) \/ di4(self)
                   \/ di3b(self) \/ di5(self) \/ di6(self)

d1(self) == /\ pc[self] = "d1"
            /\ /\ stack' = [stack EXCEPT ![self] = << [ procedure |->  "claim",
                                                        pc        |->  "d2",
                                                        vtb_      |->  vtb_[self],
                                                        vid_      |->  vid_[self] ] >>
                                                    \o stack[self]]
               /\ vid_' = [vid_ EXCEPT ![self] = vp_d[self]]
               /\ vtb_' = [vtb_ EXCEPT ![self] = "objpid"]
            /\ pc' = [pc EXCEPT ![self] = "cl1"]
            /\ UNCHANGED << obj, pref, cref, doc, mark, keep, locked, waitq, 
                            woken, ev, result, rdata, vtb, vid, vp_, vc_t, va_, 
                            vb_, vout, vmade, vrp, vrl_, vp_s, vc_s, vval, vx_, 
                            vc, vb_d, vx_d, vp_d, vc_, vcls, vrl_d, va_d, 
                            vb_de, vx_de, vdels, vdocs, vf_, vp_de, vtodo, 
                            vkeepl, vmarked, ve, vp_p, vf_p, vver, vp_g, vf_g, 
                            vx_g, vp_del, vf, vx_del, vp_delm, vp, vc_r, vrl, 
                            va, vb, vx >>

d2(self) == /\ pc[self] = "d2"
            /\ /\ stack' = [stack EXCEPT ![self] = << [ procedure |->  "claim",
                                                        pc        |->  "f1",
                                                        vtb_      |->  vtb_[self],
                                                        vid_      |->  vid_[self] ] >>
                                                    \o stack[self]]
               /\ vid_' = [vid_ EXCEPT ![self] = vp_d[self]]
               /\ vtb_' = [vtb_ EXCEPT ![self] = "refpid"]
            /\ pc' = [pc EXCEPT ![self] = "cl1"]
            /\ UNCHANGED << obj, pref, cref, doc, mark, keep, locked, waitq, 
                            woken, ev, result, rdata, vtb, vid, vp_, vc_t, va_, 
                            vb_, vout, vmade, vrp, vrl_, vp_s, vc_s, vval, vx_, 
                            vc, vb_d, vx_d, vp_d, vc_, vcls, vrl_d, va_d, 
                            vb_de, vx_de, vdels, vdocs, vf_, vp_de, vtodo, 
                            vkeepl, vmarked, ve, vp_p, vf_p, vver, vp_g, vf_g, 
                            vx_g, vp_del, vf, vx_del, vp_delm, vp, vc_r, vrl, 
                            va, vb, vx >>

f1(self) == /\ pc[self] = "f1"
            /\ va_d' = [va_d EXCEPT ![self] = pref[vp_d[self]] # None]
            /\ ev' = Ev(self, "stat", P("pidref", vp_d[self]), NoPath, FN(va_d'[self]))
            /\ IF ~va_d'[self]
                  THEN /\ vcls' = [vcls EXCEPT ![self] = "nopid"]
                       /\ pc' = [pc EXCEPT ![self] = "dfin"]
                  ELSE /\ pc' = [pc EXCEPT ![self] = "f2"]
                       /\ vcls' = vcls
            /\ UNCHANGED << obj, pref, cref, doc, mark, keep, locked, waitq, 
                            woken, result, rdata, stack, vtb_, vid_, vtb, vid, 
                            vp_, vc_t, va_, vb_, vout, vmade, vrp, vrl_, vp_s, 
                            vc_s, vval, vx_, vc, vb_d, vx_d, vp_d, vc_, vrl_d, 
                            vb_de, vx_de, vdels, vdocs, vf_, vp_de, vtodo, 
                            vkeepl, vmarked, ve, vp_p, vf_p, vver, vp_g, vf_g, 
                            vx_g, vp_del, vf, vx_del, vp_delm, vp, vc_r, vrl, 
                            va, vb, vx >>

f2(self) == /\ pc[self] = "f2"
            /\ IF pref[vp_d[self]] = None
                  THEN /\ ev' = Ev(self, "read", P("pidref", vp_d[self]), NoPath, "!fnf")
                       /\ vcls' = [vcls EXCEPT ![self] = "ioerror"]
                       /\ pc' = [pc EXCEPT ![self] = "dfin"]
                       /\ vc_' = vc_
                  ELSE /\ vc_' = [vc_ EXCEPT ![self] = pref[vp_d[self]]]
                       /\ ev' = EvV(self, "read", P("pidref", vp_d[self]), NoPath, "ok", <<vc_'[self]>>)
                       /\ pc' = [pc EXCEPT ![self] = "f3"]
                       /\ vcls' = vcls
            /\ UNCHANGED << obj, pref, cref, doc, mark, keep, locked, waitq, 
                            woken, result, rdata, stack, vtb_, vid_, vtb, vid, 
                            vp_, vc_t, va_, vb_, vout, vmade, vrp, vrl_, vp_s, 
                            vc_s, vval, vx_, vc, vb_d, vx_d, vp_d, vrl_d, va_d, 
                            vb_de, vx_de, vdels, vdocs, vf_, vp_de, vtodo, 
                            vkeepl, vmarked, ve, vp_p, vf_p, vver, vp_g, vf_g, 
                            vx_g, vp_del, vf, vx_del, vp_delm, vp, vc_r, vrl, 
                            va, vb, vx >>

f3(self) == /\ pc[self] = "f3"
            /\ vb_de' = [vb_de EXCEPT ![self] = cref[vc_[self]].has]
            /\ ev' = Ev(self, "stat", P("cidref", vc_[self]), NoPath, StatCid(vc_[self]))
            /\ IF ~vb_de'[self]
                  THEN /\ vcls' = [vcls EXCEPT ![self] = "orphan"]
                       /\ pc' = [pc EXCEPT ![self] = "orphan"]
                  ELSE /\ pc' = [pc EXCEPT ![self] = "f4"]
                       /\ vcls' = vcls
            /\ UNCHANGED << obj, pref, cref, doc, mark, keep, locked, waitq, 
                            woken, result, rdata, stack, vtb_, vid_, vtb, vid, 
                            vp_, vc_t, va_, vb_, vout, vmade, vrp, vrl_, vp_s, 
                            vc_s, vval, vx_, vc, vb_d, vx_d, vp_d, vc_, vrl_d, 
                            va_d, vx_de, vdels, vdocs, vf_, vp_de, vtodo, 
                            vkeepl, vmarked, ve, vp_p, vf_p, vver, vp_g, vf_g, 
                            vx_g, vp_del, vf, vx_del, vp_delm, vp, vc_r, vrl, 
                            va, vb, vx >>

f4(self) == /\ pc[self] = "f4"
            /\ IF ~cref[vc_[self]].has
                  THEN /\ ev' = Ev(self, "read", P("cidref", vc_[self]), NoPath, "!fnf")
                       /\ vcls' = [vcls EXCEPT ![self] = "ioerror"]
                       /\ pc' = [pc EXCEPT ![self] = "dfin"]
                       /\ vrl_d' = vrl_d
                  ELSE /\ vrl_d' = [vrl_d EXCEPT ![self] = cref[vc_[self]].pids]
                       /\ ev' = EvV(self, "read", P("cidref", vc_[self]), NoPath, "ok", vrl_d'[self])
                       /\ pc' = [pc EXCEPT ![self] = "f5"]
                       /\ vcls' = vcls
            /\ UNCHANGED << obj, pref, cref, doc, mark, keep, locked, waitq, 
                            woken, result, rdata, stack, vtb_, vid_, vtb, vid, 
                            vp_, vc_t, va_, vb_, vout, vmade, vrp, vrl_, vp_s, 
                            vc_s, vval, vx_, vc, vb_d, vx_d, vp_d, vc_, va_d, 
                            vb_de, vx_de, vdels, vdocs, vf_, vp_de, vtodo, 
                            vkeepl, vmarked, ve, vp_p, vf_p, vver, vp_g, vf_g, 
                            vx_g, vp_del, vf, vx_del, vp_delm, vp, vc_r, vrl, 
                            va, vb, vx >>

f5(self) == /\ pc[self] = "f5"
            /\ IF ~InSeq(vp_d[self], vrl_d[self])
                  THEN /\ vcls' = [vcls EXCEPT ![self] = "notinlist"]
                       /\ pc' = [pc EXCEPT ![self] = "orphan"]
                  ELSE /\ pc' = [pc EXCEPT ![self] = "f6"]
                       /\ vcls' = vcls
            /\ UNCHANGED << obj, pref, cref, doc, mark, keep, locked, waitq, 
                            woken, ev, result, rdata, stack, vtb_, vid_, vtb, 
                            vid, vp_, vc_t, va_, vb_, vout, vmade, vrp, vrl_, 
                            vp_s, vc_s, vval, vx_, vc, vb_d, vx_d, vp_d, vc_, 
                            vrl_d, va_d, vb_de, vx_de, vdels, vdocs, vf_, 
                            vp_de, vtodo, vkeepl, vmarked, ve, vp_p, vf_p, 
                            vver, vp_g, vf_g, vx_g, vp_del, vf, vx_del, 
                            vp_delm, vp, vc_r, vrl, va, vb, vx >>

f6(self) == /\ pc[self] = "f6"
            /\ vx_de' = [vx_de EXCEPT ![self] = obj[vc_[self]] = "ok"]
            /\ ev' = Ev(self, "stat", P("obj", vc_[self]), NoPath, FN(vx_de'[self]))
            /\ IF ~vx_de'[self]
                  THEN /\ vcls' = [vcls EXCEPT ![self] = "objmissing"]
                       /\ pc' = [pc EXCEPT ![self] = "missing"]
                  ELSE /\ pc' = [pc EXCEPT ![self] = "f7"]
                       /\ vcls' = vcls
            /\ UNCHANGED << obj, pref, cref, doc, mark, keep, locked, waitq, 
                            woken, result, rdata, stack, vtb_, vid_, vtb, vid, 
                            vp_, vc_t, va_, vb_, vout, vmade, vrp, vrl_, vp_s, 
                            vc_s, vval, vx_, vc, vb_d, vx_d, vp_d, vc_, vrl_d, 
                            va_d, vb_de, vdels, vdocs, vf_, vp_de, vtodo, 
                            vkeepl, vmarked, ve, vp_p, vf_p, vver, vp_g, vf_g, 
                            vx_g, vp_del, vf, vx_del, vp_delm, vp, vc_r, vrl, 
                            va, vb, vx >>

f7(self) == /\ pc[self] = "f7"
            /\ ev' = Ev(self, "stat", P("obj", vc_[self]), NoPath, FN(obj[vc_[self]] = "ok"))
            /\ pc' = [pc EXCEPT ![self] = "f8"]
            /\ UNCHANGED << obj, pref, cref, doc, mark, keep, locked, waitq, 
                            woken, result, rdata, stack, vtb_, vid_, vtb, vid, 
                            vp_, vc_t, va_, vb_, vout, vmade, vrp, vrl_, vp_s, 
                            vc_s, vval, vx_, vc, vb_d, vx_d, vp_d, vc_, vcls, 
                            vrl_d, va_d, vb_de, vx_de, vdels, vdocs, vf_, 
                            vp_de, vtodo, vkeepl, vmarked, ve, vp_p, vf_p, 
                            vver, vp_g, vf_g, vx_g, vp_del, vf, vx_del, 
                            vp_delm, vp, vc_r, vrl, va, vb, vx >>

f8(self) == /\ pc[self] = "f8"
            /\ ev' = Ev(self, "stat", P("doc", vp_d[self] \o "/" \o DefaultNs), NoPath, FN(doc[vp_d[self]][DefaultNs] # None))
            /\ vcls' = [vcls EXCEPT ![self] = "found"]
            /\ pc' = [pc EXCEPT ![self] = "m1"]
            /\ UNCHANGED << obj, pref, cref, doc, mark, keep, locked, waitq, 
                            woken, result, rdata, stack, vtb_, vid_, vtb, vid, 
                            vp_, vc_t, va_, vb_, vout, vmade, vrp, vrl_, vp_s, 
                            vc_s, vval, vx_, vc, vb_d, vx_d, vp_d, vc_, vrl_d, 
                            va_d, vb_de, vx_de, vdels, vdocs, vf_, vp_de, 
                            vtodo, vkeepl, vmarked, ve, vp_p, vf_p, vver, vp_g, 
                            vf_g, vx_g, vp_del, vf, vx_del, vp_delm, vp, vc_r, 
                            vrl, va, vb, vx >>

m1(self) == /\ pc[self] = "m1"
            /\ /\ stack' = [stack EXCEPT ![self] = << [ procedure |->  "claim",
                                                        pc        |->  "m2",
                                                        vtb_      |->  vtb_[self],
                                                        vid_      |->  vid_[self] ] >>
                                                    \o stack[self]]
               /\ vid_' = [vid_ EXCEPT ![self] = vc_[self]]
               /\ vtb_' = [vtb_ EXCEPT ![self] = "cid"]
            /\ pc' = [pc EXCEPT ![self] = "cl1"]
            /\ UNCHANGED << obj, pref, cref, doc, mark, keep, locked, waitq, 
                            woken, ev, result, rdata, vtb, vid, vp_, vc_t, va_, 
                            vb_, vout, vmade, vrp, vrl_, vp_s, vc_s, vval, vx_, 
                            vc, vb_d, vx_d, vp_d, vc_, vcls, vrl_d, va_d, 
                            vb_de, vx_de, vdels, vdocs, vf_, vp_de, vtodo, 
                            vkeepl, vmarked, ve, vp_p, vf_p, vver, vp_g, vf_g, 
                            vx_g, vp_del, vf, vx_del, vp_delm, vp, vc_r, vrl, 
                            va, vb, vx >>

m2(self) == /\ pc[self] = "m2"
            /\ ev' = Ev(self, "stat", P("pidrefdel", vp_d[self]), NoPath, FN(P("pidrefdel", vp_d[self]) \in mark))
            /\ pc' = [pc EXCEPT ![self] = "m3"]
            /\ UNCHANGED << obj, pref, cref, doc, mark, keep, locked, waitq, 
                            woken, result, rdata, stack, vtb_, vid_, vtb, vid, 
                            vp_, vc_t, va_, vb_, vout, vmade, vrp, vrl_, vp_s, 
                            vc_s, vval, vx_, vc, vb_d, vx_d, vp_d, vc_, vcls, 
                            vrl_d, va_d, vb_de, vx_de, vdels, vdocs, vf_, 
                            vp_de, vtodo, vkeepl, vmarked, ve, vp_p, vf_p, 
                            vver, vp_g, vf_g, vx_g, vp_del, vf, vx_del, 
                            vp_delm, vp, vc_r, vrl, va, vb, vx >>

m3(self) == /\ pc[self] = "m3"
            /\ IF pref[vp_d[self]] = None
                  THEN /\ ev' = Ev(self, "rename", P("pidref", vp_d[self]), P("pidrefdel", vp_d[self]), "!fnf")
                       /\ vcls' = [vcls EXCEPT ![self] = "ioerror"]
                       /\ pc' = [pc EXCEPT ![self] = "mrel"]
                       /\ UNCHANGED << pref, mark, vdels >>
                  ELSE /\ pref' = [pref EXCEPT ![vp_d[self]] = None]
                       /\ mark' = (mark \cup {P("pidrefdel", vp_d[self])})
                       /\ vdels' = [vdels EXCEPT ![self] = vdels[self] \cup {P("pidrefdel", vp_d[self])}]
                       /\ ev' = Ev(self, "rename", P("pidref", vp_d[self]), P("pidrefdel", vp_d[self]), "ok")
                       /\ pc' = [pc EXCEPT ![self] = "m4"]
                       /\ vcls' = vcls
            /\ UNCHANGED << obj, cref, doc, keep, locked, waitq, woken, result, 
                            rdata, stack, vtb_, vid_, vtb, vid, vp_, vc_t, va_, 
                            vb_, vout, vmade, vrp, vrl_, vp_s, vc_s, vval, vx_, 
                            vc, vb_d, vx_d, vp_d, vc_, vrl_d, va_d, vb_de, 
                            vx_de, vdocs, vf_, vp_de, vtodo, vkeepl, vmarked, 
                            ve, vp_p, vf_p, vver, vp_g, vf_g, vx_g, vp_del, vf, 
                            vx_del, vp_delm, vp, vc_r, vrl, va, vb, vx >>

m4(self) == /\ pc[self] = "m4"
            /\ vb_de' = [vb_de EXCEPT ![self] = cref[vc_[self]].has]
            /\ ev' = Ev(self, "stat", P("cidref", vc_[self]), NoPath, StatCid(vc_[self]))
            /\ IF ~vb_de'[self]
                  THEN /\ vcls' = [vcls EXCEPT ![self] = "ioerror"]
                       /\ pc' = [pc EXCEPT ![self] = "mrel"]
                  ELSE /\ pc' = [pc EXCEPT ![self] = "m5"]
                       /\ vcls' = vcls
            /\ UNCHANGED << obj, pref, cref, doc, mark, keep, locked, waitq, 
                            woken, result, rdata, stack, vtb_, vid_, vtb, vid, 
                            vp_, vc_t, va_, vb_, vout, vmade, vrp, vrl_, vp_s, 
                            vc_s, vval, vx_, vc, vb_d, vx_d, vp_d, vc_, vrl_d, 
                            va_d, vx_de, vdels, vdocs, vf_, vp_de, vtodo, 
                            vkeepl, vmarked, ve, vp_p, vf_p, vver, vp_g, vf_g, 
                            vx_g, vp_del, vf, vx_del, vp_delm, vp, vc_r, vrl, 
                            va, vb, vx >>

m5(self) == /\ pc[self] = "m5"
            /\ IF ~cref[vc_[self]].has
                  THEN /\ ev' = Ev(self, "openrw", P("cidref", vc_[self]), NoPath, "!fnf")
                       /\ vcls' = [vcls EXCEPT ![self] = "ioerror"]
                       /\ pc' = [pc EXCEPT ![self] = "mrel"]
                       /\ vrl_d' = vrl_d
                  ELSE /\ vrl_d' = [vrl_d EXCEPT ![self] = cref[vc_[self]].pids]
                       /\ ev' = EvV(self, "openrw", P("cidref", vc_[self]), NoPath, "ok", vrl_d'[self])
                       /\ pc' = [pc EXCEPT ![self] = "m6"]
                       /\ vcls' = vcls
            /\ UNCHANGED << obj, pref, cref, doc, mark, keep, locked, waitq, 
                            woken, result, rdata, stack, vtb_, vid_, vtb, vid, 
                            vp_, vc_t, va_, vb_, vout, vmade, vrp, vrl_, vp_s, 
                            vc_s, vval, vx_, vc, vb_d, vx_d, vp_d, vc_, va_d, 
                            vb_de, vx_de, vdels, vdocs, vf_, vp_de, vtodo, 
                            vkeepl, vmarked, ve, vp_p, vf_p, vver, vp_g, vf_g, 
                            vx_g, vp_del, vf, vx_del, vp_delm, vp, vc_r, vrl, 
                            va, vb, vx >>

m6(self) == /\ pc[self] = "m6"
            /\ cref' = [cref EXCEPT ![vc_[self]] = List(Without(vrl_d[self], vp_d[self]))]
            /\ ev' = Ev(self, "rewrite", P("cidref", vc_[self]), NoPath, "ok")
            /\ pc' = [pc EXCEPT ![self] = "m7"]
            /\ UNCHANGED << obj, pref, doc, mark, keep, locked, waitq, woken, 
                            result, rdata, stack, vtb_, vid_, vtb, vid, vp_, 
                            vc_t, va_, vb_, vout, vmade, vrp, vrl_, vp_s, vc_s, 
                            vval, vx_, vc, vb_d, vx_d, vp_d, vc_, vcls, vrl_d, 
                            va_d, vb_de, vx_de, vdels, vdocs, vf_, vp_de, 
                            vtodo, vkeepl, vmarked, ve, vp_p, vf_p, vver, vp_g, 
                            vf_g, vx_g, vp_del, vf, vx_del, vp_delm, vp, vc_r, 
                            vrl, va, vb, vx >>

m7(self) == /\ pc[self] = "m7"
            /\ ev' = Ev(self, "truncate", P("cidref", vc_[self]), NoPath, "ok")
            /\ pc' = [pc EXCEPT ![self] = "m8"]
            /\ UNCHANGED << obj, pref, cref, doc, mark, keep, locked, waitq, 
                            woken, result, rdata, stack, vtb_, vid_, vtb, vid, 
                            vp_, vc_t, va_, vb_, vout, vmade, vrp, vrl_, vp_s, 
                            vc_s, vval, vx_, vc, vb_d, vx_d, vp_d, vc_, vcls, 
                            vrl_d, va_d, vb_de, vx_de, vdels, vdocs, vf_, 
                            vp_de, vtodo, vkeepl, vmarked, ve, vp_p, vf_p, 
                            vver, vp_g, vf_g, vx_g, vp_del, vf, vx_del, 
                            vp_delm, vp, vc_r, vrl, va, vb, vx >>

m8(self) == /\ pc[self] = "m8"
            /\ vb_de' = [vb_de EXCEPT ![self] = cref[vc_[self]].has /\ cref[vc_[self]].pids = <<>>]
            /\ ev' = Ev(self, "stat", P("cidref", vc_[self]), NoPath, StatCid(vc_[self]))
            /\ IF ~cref[vc_[self]].has
                  THEN /\ vcls' = [vcls EXCEPT ![self] = "ioerror"]
                       /\ pc' = [pc EXCEPT ![self] = "mrel"]
                  ELSE /\ pc' = [pc EXCEPT ![self] = "m8b"]
                       /\ vcls' = vcls
            /\ UNCHANGED << obj, pref, cref, doc, mark, keep, locked, waitq, 
                            woken, result, rdata, stack, vtb_, vid_, vtb, vid, 
                            vp_, vc_t, va_, vb_, vout, vmade, vrp, vrl_, vp_s, 
                            vc_s, vval, vx_, vc, vb_d, vx_d, vp_d, vc_, vrl_d, 
                            va_d, vx_de, vdels, vdocs, vf_, vp_de, vtodo, 
                            vkeepl, vmarked, ve, vp_p, vf_p, vver, vp_g, vf_g, 
                            vx_g, vp_del, vf, vx_del, vp_delm, vp, vc_r, vrl, 
                            va, vb, vx >>

m8b(self) == /\ pc[self] = "m8b"
             /\ IF vb_de[self]
                   THEN /\ pc' = [pc EXCEPT ![self] = "m9"]
                   ELSE /\ pc' = [pc EXCEPT ![self] = "m13"]
             /\ UNCHANGED << obj, pref, cref, doc, mark, keep, locked, waitq, 
                             woken, ev, result, rdata, stack, vtb_, vid_, vtb, 
                             vid, vp_, vc_t, va_, vb_, vout, vmade, vrp, vrl_, 
                             vp_s, vc_s, vval, vx_, vc, vb_d, vx_d, vp_d, vc_, 
                             vcls, vrl_d, va_d, vb_de, vx_de, vdels, vdocs, 
                             vf_, vp_de, vtodo, vkeepl, vmarked, ve, vp_p, 
                             vf_p, vver, vp_g, vf_g, vx_g, vp_del, vf, vx_del, 
                             vp_delm, vp, vc_r, vrl, va, vb, vx >>

m9(self) == /\ pc[self] = "m9"
            /\ ev' = Ev(self, "stat", P("cidrefdel", vc_[self]), NoPath, FN(P("cidrefdel", vc_[self]) \in mark))
            /\ pc' = [pc EXCEPT ![self] = "m10"]
            /\ UNCHANGED << obj, pref, cref, doc, mark, keep, locked, waitq, 
                            woken, result, rdata, stack, vtb_, vid_, vtb, vid, 
                            vp_, vc_t, va_, vb_, vout, vmade, vrp, vrl_, vp_s, 
                            vc_s, vval, vx_, vc, vb_d, vx_d, vp_d, vc_, vcls, 
                            vrl_d, va_d, vb_de, vx_de, vdels, vdocs, vf_, 
                            vp_de, vtodo, vkeepl, vmarked, ve, vp_p, vf_p, 
                            vver, vp_g, vf_g, vx_g, vp_del, vf, vx_del, 
                            vp_delm, vp, vc_r, vrl, va, vb, vx >>

m10(self) == /\ pc[self] = "m10"
             /\ IF ~cref[vc_[self]].has
                   THEN /\ ev' = Ev(self, "rename", P("cidref", vc_[self]), P("cidrefdel", vc_[self]), "!fnf")
                        /\ vcls' = [vcls EXCEPT ![self] = "ioerror"]
                        /\ pc' = [pc EXCEPT ![self] = "mrel"]
                        /\ UNCHANGED << cref, mark, keep, vdels >>
                   ELSE /\ keep' = [keep EXCEPT ![vc_[self]] = cref[vc_[self]].pids]
                        /\ cref' = [cref EXCEPT ![vc_[self]] = NoList]
                        /\ mark' = (mark \cup {P("cidrefdel", vc_[self])})
                        /\ vdels' = [vdels EXCEPT ![self] = vdels[self] \cup {P("cidrefdel", vc_[self])}]
                        /\ ev' = Ev(self, "rename", P("cidref", vc_[self]), P("cidrefdel", vc_[self]), "ok")
                        /\ pc' = [pc EXCEPT ![self] = "m11"]
                        /\ vcls' = vcls
             /\ UNCHANGED << obj, pref, doc, locked, waitq, woken, result, 
                             rdata, stack, vtb_, vid_, vtb, vid, vp_, vc_t, 
                             va_, vb_, vout, vmade, vrp, vrl_, vp_s, vc_s, 
                             vval, vx_, vc, vb_d, vx_d, vp_d, vc_, vrl_d, va_d, 
                             vb_de, vx_de, vdocs, vf_, vp_de, vtodo, vkeepl, 
                             vmarked, ve, vp_p, vf_p, vver, vp_g, vf_g, vx_g, 
                             vp_del, vf, vx_del, vp_delm, vp, vc_r, vrl, va, 
                             vb, vx >>

m11(self) == /\ pc[self] = "m11"
             /\ ev' = Ev(self, "stat", P("objdel", vc_[self]), NoPath, FN(P("objdel", vc_[self]) \in mark))
             /\ pc' = [pc EXCEPT ![self] = "m12"]
             /\ UNCHANGED << obj, pref, cref, doc, mark, keep, locked, waitq, 
                             woken, result, rdata, stack, vtb_, vid_, vtb, vid, 
                             vp_, vc_t, va_, vb_, vout, vmade, vrp, vrl_, vp_s, 
                             vc_s, vval, vx_, vc, vb_d, vx_d, vp_d, vc_, vcls, 
                             vrl_d, va_d, vb_de, vx_de, vdels, vdocs, vf_, 
                             vp_de, vtodo, vkeepl, vmarked, ve, vp_p, vf_p, 
                             vver, vp_g, vf_g, vx_g, vp_del, vf, vx_del, 
                             vp_delm, vp, vc_r, vrl, va, vb, vx >>

m12(self) == /\ pc[self] = "m12"
             /\ IF obj[vc_[self]] # "ok"
                   THEN /\ ev' = Ev(self, "rename", P("obj", vc_[self]), P("objdel", vc_[self]), "!fnf")
                        /\ vcls' = [vcls EXCEPT ![self] = "ioerror"]
                        /\ pc' = [pc EXCEPT ![self] = "mrel"]
                        /\ UNCHANGED << obj, mark, vdels >>
                   ELSE /\ obj' = [obj EXCEPT ![vc_[self]] = "absent"]
                        /\ mark' = (mark \cup {P("objdel", vc_[self])})
                        /\ vdels' = [vdels EXCEPT ![self] = vdels[self] \cup {P("objdel", vc_[self])}]
                        /\ ev' = Ev(self, "rename", P("obj", vc_[self]), P("objdel", vc_[self]), "ok")
                        /\ pc' = [pc EXCEPT ![self] = "m13"]
                        /\ vcls' = vcls
             /\ UNCHANGED << pref, cref, doc, keep, locked, waitq, woken, 
                             result, rdata, stack, vtb_, vid_, vtb, vid, vp_, 
                             vc_t, va_, vb_, vout, vmade, vrp, vrl_, vp_s, 
                             vc_s, vval, vx_, vc, vb_d, vx_d, vp_d, vc_, vrl_d, 
                             va_d, vb_de, vx_de, vdocs, vf_, vp_de, vtodo, 
                             vkeepl, vmarked, ve, vp_p, vf_p, vver, vp_g, vf_g, 
                             vx_g, vp_del, vf, vx_del, vp_delm, vp, vc_r, vrl, 
                             va, vb, vx >>

m13(self) == /\ pc[self] = "m13"
             /\ IF vdels[self] # {}
                   THEN /\ \E vd \in vdels[self]:
                             /\ mark' = mark \ {vd}
                             /\ vdels' = [vdels EXCEPT ![self] = vdels[self] \ {vd}]
                             /\ ev' = Ev(self, "remove", vd, NoPath, "ok")
                        /\ pc' = [pc EXCEPT ![self] = "m13"]
                   ELSE /\ pc' = [pc EXCEPT ![self] = "m14"]
                        /\ UNCHANGED << mark, ev, vdels >>
             /\ UNCHANGED << obj, pref, cref, doc, keep, locked, waitq, woken, 
                             result, rdata, stack, vtb_, vid_, vtb, vid, vp_, 
                             vc_t, va_, vb_, vout, vmade, vrp, vrl_, vp_s, 
                             vc_s, vval, vx_, vc, vb_d, vx_d, vp_d, vc_, vcls, 
                             vrl_d, va_d, vb_de, vx_de, vdocs, vf_, vp_de, 
                             vtodo, vkeepl, vmarked, ve, vp_p, vf_p, vver, 
                             vp_g, vf_g, vx_g, vp_del, vf, vx_del, vp_delm, vp, 
                             vc_r, vrl, va, vb, vx >>

m14(self) == /\ pc[self] = "m14"
             /\ /\ stack' = [stack EXCEPT ![self] = << [ procedure |->  "delmeta_all",
                                                         pc        |->  "mrel",
                                                         vtodo     |->  vtodo[self],
                                                         vkeepl    |->  vkeepl[self],
                                                         vmarked   |->  vmarked[self],
                                                         ve        |->  ve[self],
                                                         vp_de     |->  vp_de[self] ] >>
                                                     \o stack[self]]
                /\ vp_de' = [vp_de EXCEPT ![self] = vp_d[self]]
             /\ vtodo' = [vtodo EXCEPT ![self] = {}]
             /\ vkeepl' = [vkeepl EXCEPT ![self] = {}]
             /\ vmarked' = [vmarked EXCEPT ![self] = {}]
             /\ ve' = [ve EXCEPT ![self] = <<"-", "-">>]
             /\ pc' = [pc EXCEPT ![self] = "dm1"]
             /\ UNCHANGED << obj, pref, cref, doc, mark, keep, locked, waitq, 
                             woken, ev, result, rdata, vtb_, vid_, vtb, vid, 
                             vp_, vc_t, va_, vb_, vout, vmade, vrp, vrl_, vp_s, 
                             vc_s, vval, vx_, vc, vb_d, vx_d, vp_d, vc_, vcls, 
                             vrl_d, va_d, vb_de, vx_de, vdels, vdocs, vf_, 
                             vp_p, vf_p, vver, vp_g, vf_g, vx_g, vp_del, vf, 
                             vx_del, vp_delm, vp, vc_r, vrl, va, vb, vx >>

mrel(self) == /\ pc[self] = "mrel"
              /\ /\ stack' = [stack EXCEPT ![self] = << [ procedure |->  "release",
                                                          pc        |->  "dfin",
                                                          vtb       |->  vtb[self],
                                                          vid       |->  vid[self] ] >>
                                                      \o stack[self]]
                 /\ vid' = [vid EXCEPT ![self] = vc_[self]]
                 /\ vtb' = [vtb EXCEPT ![self] = "cid"]
              /\ pc' = [pc EXCEPT ![self] = "rl1"]
              /\ UNCHANGED << obj, pref, cref, doc, mark, keep, locked, waitq, 
                              woken, ev, result, rdata, vtb_, vid_, vp_, vc_t, 
                              va_, vb_, vout, vmade, vrp, vrl_, vp_s, vc_s, 
                              vval, vx_, vc, vb_d, vx_d, vp_d, vc_, vcls, 
                              vrl_d, va_d, vb_de, vx_de, vdels, vdocs, vf_, 
                              vp_de, vtodo, vkeepl, vmarked, ve, vp_p, vf_p, 
                              vver, vp_g, vf_g, vx_g, vp_del, vf, vx_del, 
                              vp_delm, vp, vc_r, vrl, va, vb, vx >>

orphan(self) == /\ pc[self] = "orphan"
                /\ ev' = Ev(self, "stat", P("pidrefdel", vp_d[self]), NoPath, FN(P("pidrefdel", vp_d[self]) \in mark))
                /\ pc' = [pc EXCEPT ![self] = "o2"]
                /\ UNCHANGED << obj, pref, cref, doc, mark, keep, locked, 
                                waitq, woken, result, rdata, stack, vtb_, vid_, 
                                vtb, vid, vp_, vc_t, va_, vb_, vout, vmade, 
                                vrp, vrl_, vp_s, vc_s, vval, vx_, vc, vb_d, 
                                vx_d, vp_d, vc_, vcls, vrl_d, va_d, vb_de, 
                                vx_de, vdels, vdocs, vf_, vp_de, vtodo, vkeepl, 
                                vmarked, ve, vp_p, vf_p, vver, vp_g, vf_g, 
                                vx_g, vp_del, vf, vx_del, vp_delm, vp, vc_r, 
                                vrl, va, vb, vx >>

o2(self) == /\ pc[self] = "o2"
            /\ IF pref[vp_d[self]] = None
                  THEN /\ ev' = Ev(self, "rename", P("pidref", vp_d[self]), P("pidrefdel", vp_d[self]), "!fnf")
                       /\ vcls' = [vcls EXCEPT ![self] = "ioerror"]
                       /\ pc' = [pc EXCEPT ![self] = "dfin"]
                       /\ UNCHANGED << pref, mark >>
                  ELSE /\ pref' = [pref EXCEPT ![vp_d[self]] = None]
                       /\ mark' = (mark \cup {P("pidrefdel", vp_d[self])})
                       /\ ev' = Ev(self, "rename", P("pidref", vp_d[self]), P("pidrefdel", vp_d[self]), "ok")
                       /\ pc' = [pc EXCEPT ![self] = "o3"]
                       /\ vcls' = vcls
            /\ UNCHANGED << obj, cref, doc, keep, locked, waitq, woken, result, 
                            rdata, stack, vtb_, vid_, vtb, vid, vp_, vc_t, va_, 
                            vb_, vout, vmade, vrp, vrl_, vp_s, vc_s, vval, vx_, 
                            vc, vb_d, vx_d, vp_d, vc_, vrl_d, va_d, vb_de, 
                            vx_de, vdels, vdocs, vf_, vp_de, vtodo, vkeepl, 
                            vmarked, ve, vp_p, vf_p, vver, vp_g, vf_g, vx_g, 
                            vp_del, vf, vx_del, vp_delm, vp, vc_r, vrl, va, vb, 
                            vx >>

o3(self) == /\ pc[self] = "o3"
            /\ /\ stack' = [stack EXCEPT ![self] = << [ procedure |->  "delmeta_all",
                                                        pc        |->  "o4",
                                                        vtodo     |->  vtodo[self],
                                                        vkeepl    |->  vkeepl[self],
                                                        vmarked   |->  vmarked[self],
                                                        ve        |->  ve[self],
                                                        vp_de     |->  vp_de[self] ] >>
                                                    \o stack[self]]
               /\ vp_de' = [vp_de EXCEPT ![self] = vp_d[self]]
            /\ vtodo' = [vtodo EXCEPT ![self] = {}]
            /\ vkeepl' = [vkeepl EXCEPT ![self] = {}]
            /\ vmarked' = [vmarked EXCEPT ![self] = {}]
            /\ ve' = [ve EXCEPT ![self] = <<"-", "-">>]
            /\ pc' = [pc EXCEPT ![self] = "dm1"]
            /\ UNCHANGED << obj, pref, cref, doc, mark, keep, locked, waitq, 
                            woken, ev, result, rdata, vtb_, vid_, vtb, vid, 
                            vp_, vc_t, va_, vb_, vout, vmade, vrp, vrl_, vp_s, 
                            vc_s, vval, vx_, vc, vb_d, vx_d, vp_d, vc_, vcls, 
                            vrl_d, va_d, vb_de, vx_de, vdels, vdocs, vf_, vp_p, 
                            vf_p, vver, vp_g, vf_g, vx_g, vp_del, vf, vx_del, 
                            vp_delm, vp, vc_r, vrl, va, vb, vx >>

o4(self) == /\ pc[self] = "o4"
            /\ mark' = mark \ {P("pidrefdel", vp_d[self])}
            /\ ev' = Ev(self, "remove", P("pidrefdel", vp_d[self]), NoPath, "ok")
            /\ pc' = [pc EXCEPT ![self] = "dfin"]
            /\ UNCHANGED << obj, pref, cref, doc, keep, locked, waitq, woken, 
                            result, rdata, stack, vtb_, vid_, vtb, vid, vp_, 
                            vc_t, va_, vb_, vout, vmade, vrp, vrl_, vp_s, vc_s, 
                            vval, vx_, vc, vb_d, vx_d, vp_d, vc_, vcls, vrl_d, 
                            va_d, vb_de, vx_de, vdels, vdocs, vf_, vp_de, 
                            vtodo, vkeepl, vmarked, ve, vp_p, vf_p, vver, vp_g, 
                            vf_g, vx_g, vp_del, vf, vx_del, vp_delm, vp, vc_r, 
                            vrl, va, vb, vx >>

missing(self) == /\ pc[self] = "missing"
                 /\ ev' = Ev(self, "stat", P("obj", vc_[self]), NoPath, FN(obj[vc_[self]] = "ok"))
                 /\ pc' = [pc EXCEPT ![self] = "x1"]
                 /\ UNCHANGED << obj, pref, cref, doc, mark, keep, locked, 
                                 waitq, woken, result, rdata, stack, vtb_, 
                                 vid_, vtb, vid, vp_, vc_t, va_, vb_, vout, 
                                 vmade, vrp, vrl_, vp_s, vc_s, vval, vx_, vc, 
                                 vb_d, vx_d, vp_d, vc_, vcls, vrl_d, va_d, 
                                 vb_de, vx_de, vdels, vdocs, vf_, vp_de, vtodo, 
                                 vkeepl, vmarked, ve, vp_p, vf_p, vver, vp_g, 
                                 vf_g, vx_g, vp_del, vf, vx_del, vp_delm, vp, 
                                 vc_r, vrl, va, vb, vx >>

x1(self) == /\ pc[self] = "x1"
            /\ IF pref[vp_d[self]] = None
                  THEN /\ ev' = Ev(self, "read", P("pidref", vp_d[self]), NoPath, "!fnf")
                       /\ vcls' = [vcls EXCEPT ![self] = "ioerror"]
                       /\ pc' = [pc EXCEPT ![self] = "dfin"]
                       /\ vc_' = vc_
                  ELSE /\ vc_' = [vc_ EXCEPT ![self] = pref[vp_d[self]]]
                       /\ ev' = EvV(self, "read", P("pidref", vp_d[self]), NoPath, "ok", <<vc_'[self]>>)
                       /\ pc' = [pc EXCEPT ![self] = "x2"]
                       /\ vcls' = vcls
            /\ UNCHANGED << obj, pref, cref, doc, mark, keep, locked, waitq, 
                            woken, result, rdata, stack, vtb_, vid_, vtb, vid, 
                            vp_, vc_t, va_, vb_, vout, vmade, vrp, vrl_, vp_s, 
                            vc_s, vval, vx_, vc, vb_d, vx_d, vp_d, vrl_d, va_d, 
                            vb_de, vx_de, vdels, vdocs, vf_, vp_de, vtodo, 
                            vkeepl, vmarked, ve, vp_p, vf_p, vver, vp_g, vf_g, 
                            vx_g, vp_del, vf, vx_del, vp_delm, vp, vc_r, vrl, 
                            va, vb, vx >>

x2(self) == /\ pc[self] = "x2"
            /\ ev' = Ev(self, "stat", P("pidrefdel", vp_d[self]), NoPath, FN(P("pidrefdel", vp_d[self]) \in mark))
            /\ pc' = [pc EXCEPT ![self] = "x3"]
            /\ UNCHANGED << obj, pref, cref, doc, mark, keep, locked, waitq, 
                            woken, result, rdata, stack, vtb_, vid_, vtb, vid, 
                            vp_, vc_t, va_, vb_, vout, vmade, vrp, vrl_, vp_s, 
                            vc_s, vval, vx_, vc, vb_d, vx_d, vp_d, vc_, vcls, 
                            vrl_d, va_d, vb_de, vx_de, vdels, vdocs, vf_, 
                            vp_de, vtodo, vkeepl, vmarked, ve, vp_p, vf_p, 
                            vver, vp_g, vf_g, vx_g, vp_del, vf, vx_del, 
                            vp_delm, vp, vc_r, vrl, va, vb, vx >>

x3(self) == /\ pc[self] = "x3"
            /\ IF pref[vp_d[self]] = None
                  THEN /\ ev' = Ev(self, "rename", P("pidref", vp_d[self]), P("pidrefdel", vp_d[self]), "!fnf")
                       /\ vcls' = [vcls EXCEPT ![self] = "ioerror"]
                       /\ pc' = [pc EXCEPT ![self] = "dfin"]
                       /\ UNCHANGED << pref, mark >>
                  ELSE /\ pref' = [pref EXCEPT ![vp_d[self]] = None]
                       /\ mark' = (mark \cup {P("pidrefdel", vp_d[self])})
                       /\ ev' = Ev(self, "rename", P("pidref", vp_d[self]), P("pidrefdel", vp_d[self]), "ok")
                       /\ pc' = [pc EXCEPT ![self] = "x4"]
                       /\ vcls' = vcls
            /\ UNCHANGED << obj, cref, doc, keep, locked, waitq, woken, result, 
                            rdata, stack, vtb_, vid_, vtb, vid, vp_, vc_t, va_, 
                            vb_, vout, vmade, vrp, vrl_, vp_s, vc_s, vval, vx_, 
                            vc, vb_d, vx_d, vp_d, vc_, vrl_d, va_d, vb_de, 
                            vx_de, vdels, vdocs, vf_, vp_de, vtodo, vkeepl, 
                            vmarked, ve, vp_p, vf_p, vver, vp_g, vf_g, vx_g, 
                            vp_del, vf, vx_del, vp_delm, vp, vc_r, vrl, va, vb, 
                            vx >>

x4(self) == /\ pc[self] = "x4"
            /\ /\ stack' = [stack EXCEPT ![self] = << [ procedure |->  "claim",
                                                        pc        |->  "x5",
                                                        vtb_      |->  vtb_[self],
                                                        vid_      |->  vid_[self] ] >>
                                                    \o stack[self]]
               /\ vid_' = [vid_ EXCEPT ![self] = vc_[self]]
               /\ vtb_' = [vtb_ EXCEPT ![self] = "cid"]
            /\ pc' = [pc EXCEPT ![self] = "cl1"]
            /\ UNCHANGED << obj, pref, cref, doc, mark, keep, locked, waitq, 
                            woken, ev, result, rdata, vtb, vid, vp_, vc_t, va_, 
                            vb_, vout, vmade, vrp, vrl_, vp_s, vc_s, vval, vx_, 
                            vc, vb_d, vx_d, vp_d, vc_, vcls, vrl_d, va_d, 
                            vb_de, vx_de, vdels, vdocs, vf_, vp_de, vtodo, 
                            vkeepl, vmarked, ve, vp_p, vf_p, vver, vp_g, vf_g, 
                            vx_g, vp_del, vf, vx_del, vp_delm, vp, vc_r, vrl, 
                            va, vb, vx >>

x5(self) == /\ pc[self] = "x5"
            /\ IF ~cref[vc_[self]].has
                  THEN /\ ev' = Ev(self, "read", P("cidref", vc_[self]), NoPath, "!fnf")
                       /\ vcls' = [vcls EXCEPT ![self] = "ioerror"]
                       /\ pc' = [pc EXCEPT ![self] = "xrel"]
                       /\ vrl_d' = vrl_d
                  ELSE /\ vrl_d' = [vrl_d EXCEPT ![self] = cref[vc_[self]].pids]
                       /\ ev' = EvV(self, "read", P("cidref", vc_[self]), NoPath, "ok", vrl_d'[self])
                       /\ pc' = [pc EXCEPT ![self] = "x6"]
                       /\ vcls' = vcls
            /\ UNCHANGED << obj, pref, cref, doc, mark, keep, locked, waitq, 
                            woken, result, rdata, stack, vtb_, vid_, vtb, vid, 
                            vp_, vc_t, va_, vb_, vout, vmade, vrp, vrl_, vp_s, 
                            vc_s, vval, vx_, vc, vb_d, vx_d, vp_d, vc_, va_d, 
                            vb_de, vx_de, vdels, vdocs, vf_, vp_de, vtodo, 
                            vkeepl, vmarked, ve, vp_p, vf_p, vver, vp_g, vf_g, 
                            vx_g, vp_del, vf, vx_del, vp_delm, vp, vc_r, vrl, 
                            va, vb, vx >>

x6(self) == /\ pc[self] = "x6"
            /\ IF InSeq(vp_d[self], vrl_d[self])
                  THEN /\ vb_de' = [vb_de EXCEPT ![self] = cref[vc_[self]].has]
                       /\ ev' = Ev(self, "stat", P("cidref", vc_[self]), NoPath, StatCid(vc_[self]))
                       /\ IF ~vb_de'[self]
                             THEN /\ vcls' = [vcls EXCEPT ![self] = "ioerror"]
                                  /\ pc' = [pc EXCEPT ![self] = "xrel"]
                             ELSE /\ pc' = [pc EXCEPT ![self] = "x7"]
                                  /\ vcls' = vcls
                  ELSE /\ pc' = [pc EXCEPT ![self] = "x10"]
                       /\ UNCHANGED << ev, vcls, vb_de >>
            /\ UNCHANGED << obj, pref, cref, doc, mark, keep, locked, waitq, 
                            woken, result, rdata, stack, vtb_, vid_, vtb, vid, 
                            vp_, vc_t, va_, vb_, vout, vmade, vrp, vrl_, vp_s, 
                            vc_s, vval, vx_, vc, vb_d, vx_d, vp_d, vc_, vrl_d, 
                            va_d, vx_de, vdels, vdocs, vf_, vp_de, vtodo, 
                            vkeepl, vmarked, ve, vp_p, vf_p, vver, vp_g, vf_g, 
                            vx_g, vp_del, vf, vx_del, vp_delm, vp, vc_r, vrl, 
                            va, vb, vx >>

x7(self) == /\ pc[self] = "x7"
            /\ IF ~cref[vc_[self]].has
                  THEN /\ ev' = Ev(self, "openrw", P("cidref", vc_[self]), NoPath, "!fnf")
                       /\ vcls' = [vcls EXCEPT ![self] = "ioerror"]
                       /\ pc' = [pc EXCEPT ![self] = "xrel"]
                       /\ vrl_d' = vrl_d
                  ELSE /\ vrl_d' = [vrl_d EXCEPT ![self] = cref[vc_[self]].pids]
                       /\ ev' = EvV(self, "openrw", P("cidref", vc_[self]), NoPath, "ok", vrl_d'[self])
                       /\ pc' = [pc EXCEPT ![self] = "x8"]
                       /\ vcls' = vcls
            /\ UNCHANGED << obj, pref, cref, doc, mark, keep, locked, waitq, 
                            woken, result, rdata, stack, vtb_, vid_, vtb, vid, 
                            vp_, vc_t, va_, vb_, vout, vmade, vrp, vrl_, vp_s, 
                            vc_s, vval, vx_, vc, vb_d, vx_d, vp_d, vc_, va_d, 
                            vb_de, vx_de, vdels, vdocs, vf_, vp_de, vtodo, 
                            vkeepl, vmarked, ve, vp_p, vf_p, vver, vp_g, vf_g, 
                            vx_g, vp_del, vf, vx_del, vp_delm, vp, vc_r, vrl, 
                            va, vb, vx >>

x8(self) == /\ pc[self] = "x8"
            /\ cref' = [cref EXCEPT ![vc_[self]] = List(Without(vrl_d[self], vp_d[self]))]
            /\ ev' = Ev(self, "rewrite", P("cidref", vc_[self]), NoPath, "ok")
            /\ pc' = [pc EXCEPT ![self] = "x9"]
            /\ UNCHANGED << obj, pref, doc, mark, keep, locked, waitq, woken, 
                            result, rdata, stack, vtb_, vid_, vtb, vid, vp_, 
                            vc_t, va_, vb_, vout, vmade, vrp, vrl_, vp_s, vc_s, 
                            vval, vx_, vc, vb_d, vx_d, vp_d, vc_, vcls, vrl_d, 
                            va_d, vb_de, vx_de, vdels, vdocs, vf_, vp_de, 
                            vtodo, vkeepl, vmarked, ve, vp_p, vf_p, vver, vp_g, 
                            vf_g, vx_g, vp_del, vf, vx_del, vp_delm, vp, vc_r, 
                            vrl, va, vb, vx >>

x9(self) == /\ pc[self] = "x9"
            /\ ev' = Ev(self, "truncate", P("cidref", vc_[self]), NoPath, "ok")
            /\ pc' = [pc EXCEPT ![self] = "x10"]
            /\ UNCHANGED << obj, pref, cref, doc, mark, keep, locked, waitq, 
                            woken, result, rdata, stack, vtb_, vid_, vtb, vid, 
                            vp_, vc_t, va_, vb_, vout, vmade, vrp, vrl_, vp_s, 
                            vc_s, vval, vx_, vc, vb_d, vx_d, vp_d, vc_, vcls, 
                            vrl_d, va_d, vb_de, vx_de, vdels, vdocs, vf_, 
                            vp_de, vtodo, vkeepl, vmarked, ve, vp_p, vf_p, 
                            vver, vp_g, vf_g, vx_g, vp_del, vf, vx_del, 
                            vp_delm, vp, vc_r, vrl, va, vb, vx >>

x10(self) == /\ pc[self] = "x10"
             /\ vb_de' = [vb_de EXCEPT ![self] = cref[vc_[self]].has /\ cref[vc_[self]].pids = <<>>]
             /\ ev' = Ev(self, "stat", P("cidref", vc_[self]), NoPath, StatCid(vc_[self]))
             /\ IF ~cref[vc_[self]].has
                   THEN /\ vcls' = [vcls EXCEPT ![self] = "ioerror"]
                        /\ pc' = [pc EXCEPT ![self] = "xrel"]
                   ELSE /\ pc' = [pc EXCEPT ![self] = "x10b"]
                        /\ vcls' = vcls
             /\ UNCHANGED << obj, pref, cref, doc, mark, keep, locked, waitq, 
                             woken, result, rdata, stack, vtb_, vid_, vtb, vid, 
                             vp_, vc_t, va_, vb_, vout, vmade, vrp, vrl_, vp_s, 
                             vc_s, vval, vx_, vc, vb_d, vx_d, vp_d, vc_, vrl_d, 
                             va_d, vx_de, vdels, vdocs, vf_, vp_de, vtodo, 
                             vkeepl, vmarked, ve, vp_p, vf_p, vver, vp_g, vf_g, 
                             vx_g, vp_del, vf, vx_del, vp_delm, vp, vc_r, vrl, 
                             va, vb, vx >>

x10b(self) == /\ pc[self] = "x10b"
              /\ IF vb_de[self]
                    THEN /\ pc' = [pc EXCEPT ![self] = "x11"]
                    ELSE /\ pc' = [pc EXCEPT ![self] = "xrel"]
              /\ UNCHANGED << obj, pref, cref, doc, mark, keep, locked, waitq, 
                              woken, ev, result, rdata, stack, vtb_, vid_, vtb, 
                              vid, vp_, vc_t, va_, vb_, vout, vmade, vrp, vrl_, 
                              vp_s, vc_s, vval, vx_, vc, vb_d, vx_d, vp_d, vc_, 
                              vcls, vrl_d, va_d, vb_de, vx_de, vdels, vdocs, 
                              vf_, vp_de, vtodo, vkeepl, vmarked, ve, vp_p, 
                              vf_p, vver, vp_g, vf_g, vx_g, vp_del, vf, vx_del, 
                              vp_delm, vp, vc_r, vrl, va, vb, vx >>

x11(self) == /\ pc[self] = "x11"
             /\ ev' = Ev(self, "stat", P("cidrefdel", vc_[self]), NoPath, FN(P("cidrefdel", vc_[self]) \in mark))
             /\ pc' = [pc EXCEPT ![self] = "x12"]
             /\ UNCHANGED << obj, pref, cref, doc, mark, keep, locked, waitq, 
                             woken, result, rdata, stack, vtb_, vid_, vtb, vid, 
                             vp_, vc_t, va_, vb_, vout, vmade, vrp, vrl_, vp_s, 
                             vc_s, vval, vx_, vc, vb_d, vx_d, vp_d, vc_, vcls, 
                             vrl_d, va_d, vb_de, vx_de, vdels, vdocs, vf_, 
                             vp_de, vtodo, vkeepl, vmarked, ve, vp_p, vf_p, 
                             vver, vp_g, vf_g, vx_g, vp_del, vf, vx_del, 
                             vp_delm, vp, vc_r, vrl, va, vb, vx >>

x12(self) == /\ pc[self] = "x12"
             /\ IF ~cref[vc_[self]].has
                   THEN /\ ev' = Ev(self, "rename", P("cidref", vc_[self]), P("cidrefdel", vc_[self]), "!fnf")
                        /\ vcls' = [vcls EXCEPT ![self] = "ioerror"]
                        /\ pc' = [pc EXCEPT ![self] = "xrel"]
                        /\ UNCHANGED << cref, mark >>
                   ELSE /\ cref' = [cref EXCEPT ![vc_[self]] = NoList]
                        /\ mark' = (mark \cup {P("cidrefdel", vc_[self])})
                        /\ ev' = Ev(self, "rename", P("cidref", vc_[self]), P("cidrefdel", vc_[self]), "ok")
                        /\ pc' = [pc EXCEPT ![self] = "x12b"]
                        /\ vcls' = vcls
             /\ UNCHANGED << obj, pref, doc, keep, locked, waitq, woken, 
                             result, rdata, stack, vtb_, vid_, vtb, vid, vp_, 
                             vc_t, va_, vb_, vout, vmade, vrp, vrl_, vp_s, 
                             vc_s, vval, vx_, vc, vb_d, vx_d, vp_d, vc_, vrl_d, 
                             va_d, vb_de, vx_de, vdels, vdocs, vf_, vp_de, 
                             vtodo, vkeepl, vmarked, ve, vp_p, vf_p, vver, 
                             vp_g, vf_g, vx_g, vp_del, vf, vx_del, vp_delm, vp, 
                             vc_r, vrl, va, vb, vx >>

x12b(self) == /\ pc[self] = "x12b"
              /\ vx_de' = [vx_de EXCEPT ![self] = obj[vc_[self]] = "ok"]
              /\ ev' = Ev(self, "stat", P("obj", vc_[self]), NoPath, FN(vx_de'[self]))
              /\ IF ~vx_de'[self]
                    THEN /\ pc' = [pc EXCEPT ![self] = "x12c"]
                    ELSE /\ pc' = [pc EXCEPT ![self] = "x12c2"]
              /\ UNCHANGED << obj, pref, cref, doc, mark, keep, locked, waitq, 
                              woken, result, rdata, stack, vtb_, vid_, vtb, 
                              vid, vp_, vc_t, va_, vb_, vout, vmade, vrp, vrl_, 
                              vp_s, vc_s, vval, vx_, vc, vb_d, vx_d, vp_d, vc_, 
                              vcls, vrl_d, va_d, vb_de, vdels, vdocs, vf_, 
                              vp_de, vtodo, vkeepl, vmarked, ve, vp_p, vf_p, 
                              vver, vp_g, vf_g, vx_g, vp_del, vf, vx_del, 
                              vp_delm, vp, vc_r, vrl, va, vb, vx >>

x12c(self) == /\ pc[self] = "x12c"
              /\ ev' = Ev(self, "stat", P("obj", vc_[self]), NoPath, FN(obj[vc_[self]] = "ok"))
              /\ pc' = [pc EXCEPT ![self] = "xrel"]
              /\ UNCHANGED << obj, pref, cref, doc, mark, keep, locked, waitq, 
                              woken, result, rdata, stack, vtb_, vid_, vtb, 
                              vid, vp_, vc_t, va_, vb_, vout, vmade, vrp, vrl_, 
                              vp_s, vc_s, vval, vx_, vc, vb_d, vx_d, vp_d, vc_, 
                              vcls, vrl_d, va_d, vb_de, vx_de, vdels, vdocs, 
                              vf_, vp_de, vtodo, vkeepl, vmarked, ve, vp_p, 
                              vf_p, vver, vp_g, vf_g, vx_g, vp_del, vf, vx_del, 
                              vp_delm, vp, vc_r, vrl, va, vb, vx >>

x12c2(self) == /\ pc[self] = "x12c2"
               /\ ev' = Ev(self, "stat", P("obj", vc_[self]), NoPath, FN(obj[vc_[self]] = "ok"))
               /\ pc' = [pc EXCEPT ![self] = "x12d"]
               /\ UNCHANGED << obj, pref, cref, doc, mark, keep, locked, waitq, 
                               woken, result, rdata, stack, vtb_, vid_, vtb, 
                               vid, vp_, vc_t, va_, vb_, vout, vmade, vrp, 
                               vrl_, vp_s, vc_s, vval, vx_, vc, vb_d, vx_d, 
                               vp_d, vc_, vcls, vrl_d, va_d, vb_de, vx_de, 
                               vdels, vdocs, vf_, vp_de, vtodo, vkeepl, 
                               vmarked, ve, vp_p, vf_p, vver, vp_g, vf_g, vx_g, 
                               vp_del, vf, vx_del, vp_delm, vp, vc_r, vrl, va, 
                               vb, vx >>

x12d(self) == /\ pc[self] = "x12d"
              /\ ev' = Ev(self, "stat", P("objdel", vc_[self]), NoPath, FN(P("objdel", vc_[self]) \in mark))
              /\ pc' = [pc EXCEPT ![self] = "x12e"]
              /\ UNCHANGED << obj, pref, cref, doc, mark, keep, locked, waitq, 
                              woken, result, rdata, stack, vtb_, vid_, vtb, 
                              vid, vp_, vc_t, va_, vb_, vout, vmade, vrp, vrl_, 
                              vp_s, vc_s, vval, vx_, vc, vb_d, vx_d, vp_d, vc_, 
                              vcls, vrl_d, va_d, vb_de, vx_de, vdels, vdocs, 
                              vf_, vp_de, vtodo, vkeepl, vmarked, ve, vp_p, 
                              vf_p, vver, vp_g, vf_g, vx_g, vp_del, vf, vx_del, 
                              vp_delm, vp, vc_r, vrl, va, vb, vx >>

x12e(self) == /\ pc[self] = "x12e"
              /\ IF obj[vc_[self]] # "ok"
                    THEN /\ ev' = Ev(self, "rename", P("obj", vc_[self]), P("objdel", vc_[self]), "!fnf")
                         /\ vcls' = [vcls EXCEPT ![self] = "ioerror"]
                         /\ pc' = [pc EXCEPT ![self] = "xrel"]
                         /\ UNCHANGED << obj, mark >>
                    ELSE /\ obj' = [obj EXCEPT ![vc_[self]] = "absent"]
                         /\ mark' = (mark \cup {P("objdel", vc_[self])})
                         /\ ev' = Ev(self, "rename", P("obj", vc_[self]), P("objdel", vc_[self]), "ok")
                         /\ pc' = [pc EXCEPT ![self] = "xrel"]
                         /\ vcls' = vcls
              /\ UNCHANGED << pref, cref, doc, keep, locked, waitq, woken, 
                              result, rdata, stack, vtb_, vid_, vtb, vid, vp_, 
                              vc_t, va_, vb_, vout, vmade, vrp, vrl_, vp_s, 
                              vc_s, vval, vx_, vc, vb_d, vx_d, vp_d, vc_, 
                              vrl_d, va_d, vb_de, vx_de, vdels, vdocs, vf_, 
                              vp_de, vtodo, vkeepl, vmarked, ve, vp_p, vf_p, 
                              vver, vp_g, vf_g, vx_g, vp_del, vf, vx_del, 
                              vp_delm, vp, vc_r, vrl, va, vb, vx >>

xrel(self) == /\ pc[self] = "xrel"
              /\ /\ stack' = [stack EXCEPT ![self] = << [ procedure |->  "release",
                                                          pc        |->  "x13",
                                                          vtb       |->  vtb[self],
                                                          vid       |->  vid[self] ] >>
                                                      \o stack[self]]
                 /\ vid' = [vid EXCEPT ![self] = vc_[self]]
                 /\ vtb' = [vtb EXCEPT ![self] = "cid"]
              /\ pc' = [pc EXCEPT ![self] = "rl1"]
              /\ UNCHANGED << obj, pref, cref, doc, mark, keep, locked, waitq, 
                              woken, ev, result, rdata, vtb_, vid_, vp_, vc_t, 
                              va_, vb_, vout, vmade, vrp, vrl_, vp_s, vc_s, 
                              vval, vx_, vc, vb_d, vx_d, vp_d, vc_, vcls, 
                              vrl_d, va_d, vb_de, vx_de, vdels, vdocs, vf_, 
                              vp_de, vtodo, vkeepl, vmarked, ve, vp_p, vf_p, 
                              vver, vp_g, vf_g, vx_g, vp_del, vf, vx_del, 
                              vp_delm, vp, vc_r, vrl, va, vb, vx >>

x13(self) == /\ pc[self] = "x13"
             /\ IF vcls[self] = "ioerror"
                   THEN /\ pc' = [pc EXCEPT ![self] = "dfin"]
                   ELSE /\ pc' = [pc EXCEPT ![self] = "x14"]
             /\ UNCHANGED << obj, pref, cref, doc, mark, keep, locked, waitq, 
                             woken, ev, result, rdata, stack, vtb_, vid_, vtb, 
                             vid, vp_, vc_t, va_, vb_, vout, vmade, vrp, vrl_, 
                             vp_s, vc_s, vval, vx_, vc, vb_d, vx_d, vp_d, vc_, 
                             vcls, vrl_d, va_d, vb_de, vx_de, vdels, vdocs, 
                             vf_, vp_de, vtodo, vkeepl, vmarked, ve, vp_p, 
                             vf_p, vver, vp_g, vf_g, vx_g, vp_del, vf, vx_del, 
                             vp_delm, vp, vc_r, vrl, va, vb, vx >>

x14(self) == /\ pc[self] = "x14"
             /\ /\ stack' = [stack EXCEPT ![self] = << [ procedure |->  "delmeta_all",
                                                         pc        |->  "x15",
                                                         vtodo     |->  vtodo[self],
                                                         vkeepl    |->  vkeepl[self],
                                                         vmarked   |->  vmarked[self],
                                                         ve        |->  ve[self],
                                                         vp_de     |->  vp_de[self] ] >>
                                                     \o stack[self]]
                /\ vp_de' = [vp_de EXCEPT ![self] = vp_d[self]]
             /\ vtodo' = [vtodo EXCEPT ![self] = {}]
             /\ vkeepl' = [vkeepl EXCEPT ![self] = {}]
             /\ vmarked' = [vmarked EXCEPT ![self] = {}]
             /\ ve' = [ve EXCEPT ![self] = <<"-", "-">>]
             /\ pc' = [pc EXCEPT ![self] = "dm1"]
             /\ UNCHANGED << obj, pref, cref, doc, mark, keep, locked, waitq, 
                             woken, ev, result, rdata, vtb_, vid_, vtb, vid, 
                             vp_, vc_t, va_, vb_, vout, vmade, vrp, vrl_, vp_s, 
                             vc_s, vval, vx_, vc, vb_d, vx_d, vp_d, vc_, vcls, 
                             vrl_d, va_d, vb_de, vx_de, vdels, vdocs, vf_, 
                             vp_p, vf_p, vver, vp_g, vf_g, vx_g, vp_del, vf, 
                             vx_del, vp_delm, vp, vc_r, vrl, va, vb, vx >>

x15(self) == /\ pc[self] = "x15"
             /\ mark' = mark \ {P("pidrefdel", vp_d[self])}
             /\ ev' = Ev(self, "remove", P("pidrefdel", vp_d[self]), NoPath, "ok")
             /\ pc' = [pc EXCEPT ![self] = "x16"]
             /\ UNCHANGED << obj, pref, cref, doc, keep, locked, waitq, woken, 
                             result, rdata, stack, vtb_, vid_, vtb, vid, vp_, 
                             vc_t, va_, vb_, vout, vmade, vrp, vrl_, vp_s, 
                             vc_s, vval, vx_, vc, vb_d, vx_d, vp_d, vc_, vcls, 
                             vrl_d, va_d, vb_de, vx_de, vdels, vdocs, vf_, 
                             vp_de, vtodo, vkeepl, vmarked, ve, vp_p, vf_p, 
                             vver, vp_g, vf_g, vx_g, vp_del, vf, vx_del, 
                             vp_delm, vp, vc_r, vrl, va, vb, vx >>

x16(self) == /\ pc[self] = "x16"
             /\ IF P("cidrefdel", vc_[self]) \in mark
                   THEN /\ mark' = mark \ {P("cidrefdel", vc_[self])}
                        /\ ev' = Ev(self, "remove", P("cidrefdel", vc_[self]), NoPath, "ok")
                   ELSE /\ TRUE
                        /\ UNCHANGED << mark, ev >>
             /\ pc' = [pc EXCEPT ![self] = "x17"]
             /\ UNCHANGED << obj, pref, cref, doc, keep, locked, waitq, woken, 
                             result, rdata, stack, vtb_, vid_, vtb, vid, vp_, 
                             vc_t, va_, vb_, vout, vmade, vrp, vrl_, vp_s, 
                             vc_s, vval, vx_, vc, vb_d, vx_d, vp_d, vc_, vcls, 
                             vrl_d, va_d, vb_de, vx_de, vdels, vdocs, vf_, 
                             vp_de, vtodo, vkeepl, vmarked, ve, vp_p, vf_p, 
                             vver, vp_g, vf_g, vx_g, vp_del, vf, vx_del, 
                             vp_delm, vp, vc_r, vrl, va, vb, vx >>

x17(self) == /\ pc[self] = "x17"
             /\ IF P("objdel", vc_[self]) \in mark
                   THEN /\ mark' = mark \ {P("objdel", vc_[self])}
                        /\ ev' = Ev(self, "remove", P("objdel", vc_[self]), NoPath, "ok")
                   ELSE /\ TRUE
                        /\ UNCHANGED << mark, ev >>
             /\ pc' = [pc EXCEPT ![self] = "dfin"]
             /\ UNCHANGED << obj, pref, cref, doc, keep, locked, waitq, woken, 
                             result, rdata, stack, vtb_, vid_, vtb, vid, vp_, 
                             vc_t, va_, vb_, vout, vmade, vrp, vrl_, vp_s, 
                             vc_s, vval, vx_, vc, vb_d, vx_d, vp_d, vc_, vcls, 
                             vrl_d, va_d, vb_de, vx_de, vdels, vdocs, vf_, 
                             vp_de, vtodo, vkeepl, vmarked, ve, vp_p, vf_p, 
                             vver, vp_g, vf_g, vx_g, vp_del, vf, vx_del, 
                             vp_delm, vp, vc_r, vrl, va, vb, vx >>

dfin(self) == /\ pc[self] = "dfin"
              /\ /\ stack' = [stack EXCEPT ![self] = << [ procedure |->  "release",
                                                          pc        |->  "d8",
                                                          vtb       |->  vtb[self],
                                                          vid       |->  vid[self] ] >>
                                                      \o stack[self]]
                 /\ vid' = [vid EXCEPT ![self] = vp_d[self]]
                 /\ vtb' = [vtb EXCEPT ![self] = "refpid"]
              /\ pc' = [pc EXCEPT ![self] = "rl1"]
              /\ UNCHANGED << obj, pref, cref, doc, mark, keep, locked, waitq, 
                              woken, ev, result, rdata, vtb_, vid_, vp_, vc_t, 
                              va_, vb_, vout, vmade, vrp, vrl_, vp_s, vc_s, 
                              vval, vx_, vc, vb_d, vx_d, vp_d, vc_, vcls, 
                              vrl_d, va_d, vb_de, vx_de, vdels, vdocs, vf_, 
                              vp_de, vtodo, vkeepl, vmarked, ve, vp_p, vf_p, 
                              vver, vp_g, vf_g, vx_g, vp_del, vf, vx_del, 
                              vp_delm, vp, vc_r, vrl, va, vb, vx >>

d8(self) == /\ pc[self] = "d8"
            /\ /\ stack' = [stack EXCEPT ![self] = << [ procedure |->  "release",
                                                        pc        |->  "d9",
                                                        vtb       |->  vtb[self],
                                                        vid       |->  vid[self] ] >>
                                                    \o stack[self]]
               /\ vid' = [vid EXCEPT ![self] = vp_d[self]]
               /\ vtb' = [vtb EXCEPT ![self] = "objpid"]
            /\ pc' = [pc EXCEPT ![self] = "rl1"]
            /\ UNCHANGED << obj, pref, cref, doc, mark, keep, locked, waitq, 
                            woken, ev, result, rdata, vtb_, vid_, vp_, vc_t, 
                            va_, vb_, vout, vmade, vrp, vrl_, vp_s, vc_s, vval, 
                            vx_, vc, vb_d, vx_d, vp_d, vc_, vcls, vrl_d, va_d, 
                            vb_de, vx_de, vdels, vdocs, vf_, vp_de, vtodo, 
                            vkeepl, vmarked, ve, vp_p, vf_p, vver, vp_g, vf_g, 
                            vx_g, vp_del, vf, vx_del, vp_delm, vp, vc_r, vrl, 
                            va, vb, vx >>

d9(self) == /\ pc[self] = "d9"
            /\ result' = [result EXCEPT ![self] = IF vcls[self] \in {"found", "orphan", "notinlist", "objmissing"} THEN "ok" ELSE vcls[self]]
            /\ pc' = [pc EXCEPT ![self] = Head(stack[self]).pc]
            /\ vc_' = [vc_ EXCEPT ![self] = Head(stack[self]).vc_]
            /\ vcls' = [vcls EXCEPT ![self] = Head(stack[self]).vcls]
            /\ vrl_d' = [vrl_d EXCEPT ![self] = Head(stack[self]).vrl_d]
            /\ va_d' = [va_d EXCEPT ![self] = Head(stack[self]).va_d]
            /\ vb_de' = [vb_de EXCEPT ![self] = Head(stack[self]).vb_de]
            /\ vx_de' = [vx_de EXCEPT ![self] = Head(stack[self]).vx_de]
            /\ vdels' = [vdels EXCEPT ![self] = Head(stack[self]).vdels]
            /\ vdocs' = [vdocs EXCEPT ![self] = Head(stack[self]).vdocs]
            /\ vf_' = [vf_ EXCEPT ![self] = Head(stack[self]).vf_]
            /\ vp_d' = [vp_d EXCEPT ![self] = Head(stack[self]).vp_d]
            /\ stack' = [stack EXCEPT ![self] = Tail(stack[self])]
            /\ UNCHANGED << obj, pref, cref, doc, mark, keep, locked, waitq, 
                            woken, ev, rdata, vtb_, vid_, vtb, vid, vp_, vc_t, 
                            va_, vb_, vout, vmade, vrp, vrl_, vp_s, vc_s, vval, 
                            vx_, vc, vb_d, vx_d, vp_de, vtodo, vkeepl, vmarked, 
                            ve, vp_p, vf_p, vver, vp_g, vf_g, vx_g, vp_del, vf, 
                            vx_del, vp_delm, vp, vc_r, vrl, va, vb, vx >>

delete(self) == d1(self) \/ d2(self) \/ f1(self) \/ f2(self) \/ f3(self)
                   \/ f4(self) \/ f5(self) \/ f6(self) \/ f7(self)
                   \/ f8(self) \/ m1(self) \/ m2(self) \/ m3(self)
                   \/ m4(self) \/ m5(self) \/ m6(self) \/ m7(self)
                   \/ m8(self) \/ m8b(self) \/ m9(self) \/ m10(self)
                   \/ m11(self) \/ m12(self) \/ m13(self) \/ m14(self)
                   \/ mrel(self) \/ orphan(self) \/ o2(self) \/ o3(self)
                   \/ o4(self) \/ missing(self) \/ x1(self) \/ x2(self)
                   \/ x3(self) \/ x4(self) \/ x5(self) \/ x6(self)
                   \/ x7(self) \/ x8(self) \/ x9(self) \/ x10(self)
                   \/ x10b(self) \/ x11(self) \/ x12(self) \/ x12b(self)
                   \/ x12c(self) \/ x12c2(self) \/ x12d(self) \/ x12e(self)
                   \/ xrel(self) \/ x13(self) \/ x14(self) \/ x15(self)
                   \/ x16(self) \/ x17(self) \/ dfin(self) \/ d8(self)
                   \/ d9(self)

dm1(self) == /\ pc[self] = "dm1"
             /\ vtodo' = [vtodo EXCEPT ![self] = {<<"doc", vff>> : vff \in {g \in Fmt : doc[vp_de[self]][g] # None}}
                                                 \cup {<<"docdel", vff>> : vff \in {g \in Fmt : P("docdel", vp_de[self] \o "/" \o g) \in mark}}
                                                 \cup {<<"docdel2", vff>> : vff \in {g \in Fmt : P("docdel2", vp_de[self] \o "/" \o g) \in mark}}]
             /\ pc' = [pc EXCEPT ![self] = "dm2"]
             /\ UNCHANGED << obj, pref, cref, doc, mark, keep, locked, waitq, 
                             woken, ev, result, rdata, stack, vtb_, vid_, vtb, 
                             vid, vp_, vc_t, va_, vb_, vout, vmade, vrp, vrl_, 
                             vp_s, vc_s, vval, vx_, vc, vb_d, vx_d, vp_d, vc_, 
                             vcls, vrl_d, va_d, vb_de, vx_de, vdels, vdocs, 
                             vf_, vp_de, vkeepl, vmarked, ve, vp_p, vf_p, vver, 
                             vp_g, vf_g, vx_g, vp_del, vf, vx_del, vp_delm, vp, 
                             vc_r, vrl, va, vb, vx >>

dm2(self) == /\ pc[self] = "dm2"
             /\ IF vtodo[self] # {}
                   THEN /\ \E vx0 \in vtodo[self]:
                             /\ ve' = [ve EXCEPT ![self] = vx0]
                             /\ vtodo' = [vtodo EXCEPT ![self] = vtodo[self] \ {vx0}]
                        /\ pc' = [pc EXCEPT ![self] = "dm3"]
                   ELSE /\ pc' = [pc EXCEPT ![self] = "dm4"]
                        /\ UNCHANGED << vtodo, ve >>
             /\ UNCHANGED << obj, pref, cref, doc, mark, keep, locked, waitq, 
                             woken, ev, result, rdata, stack, vtb_, vid_, vtb, 
                             vid, vp_, vc_t, va_, vb_, vout, vmade, vrp, vrl_, 
                             vp_s, vc_s, vval, vx_, vc, vb_d, vx_d, vp_d, vc_, 
                             vcls, vrl_d, va_d, vb_de, vx_de, vdels, vdocs, 
                             vf_, vp_de, vkeepl, vmarked, vp_p, vf_p, vver, 
                             vp_g, vf_g, vx_g, vp_del, vf, vx_del, vp_delm, vp, 
                             vc_r, vrl, va, vb, vx >>

dm3(self) == /\ pc[self] = "dm3"
             /\ IF Here(ve[self][1], vp_de[self], ve[self][2])
                   THEN /\ vkeepl' = [vkeepl EXCEPT ![self] = vkeepl[self] \cup {ve[self]}]
                   ELSE /\ TRUE
                        /\ UNCHANGED vkeepl
             /\ ev' = Ev(self, "stat", P(ve[self][1], vp_de[self] \o "/" \o ve[self][2]), NoPath, FN(Here(ve[self][1], vp_de[self], ve[self][2])))
             /\ pc' = [pc EXCEPT ![self] = "dm2"]
             /\ UNCHANGED << obj, pref, cref, doc, mark, keep, locked, waitq, 
                             woken, result, rdata, stack, vtb_, vid_, vtb, vid, 
                             vp_, vc_t, va_, vb_, vout, vmade, vrp, vrl_, vp_s, 
                             vc_s, vval, vx_, vc, vb_d, vx_d, vp_d, vc_, vcls, 
                             vrl_d, va_d, vb_de, vx_de, vdels, vdocs, vf_, 
                             vp_de, vtodo, vmarked, ve, vp_p, vf_p, vver, vp_g, 
                             vf_g, vx_g, vp_del, vf, vx_del, vp_delm, vp, vc_r, 
                             vrl, va, vb, vx >>

dm4(self) == /\ pc[self] = "dm4"
             /\ IF vkeepl[self] # {}
                   THEN /\ \E vx0 \in vkeepl[self]:
                             /\ ve' = [ve EXCEPT ![self] = vx0]
                             /\ vkeepl' = [vkeepl EXCEPT ![self] = vkeepl[self] \ {vx0}]
                        /\ pc' = [pc EXCEPT ![self] = "dm5"]
                   ELSE /\ pc' = [pc EXCEPT ![self] = "dm9"]
                        /\ UNCHANGED << vkeepl, ve >>
             /\ UNCHANGED << obj, pref, cref, doc, mark, keep, locked, waitq, 
                             woken, ev, result, rdata, stack, vtb_, vid_, vtb, 
                             vid, vp_, vc_t, va_, vb_, vout, vmade, vrp, vrl_, 
                             vp_s, vc_s, vval, vx_, vc, vb_d, vx_d, vp_d, vc_, 
                             vcls, vrl_d, va_d, vb_de, vx_de, vdels, vdocs, 
                             vf_, vp_de, vtodo, vmarked, vp_p, vf_p, vver, 
                             vp_g, vf_g, vx_g, vp_del, vf, vx_del, vp_delm, vp, 
                             vc_r, vrl, va, vb, vx >>

dm5(self) == /\ pc[self] = "dm5"
             /\ /\ stack' = [stack EXCEPT ![self] = << [ procedure |->  "claim",
                                                         pc        |->  "dm6",
                                                         vtb_      |->  vtb_[self],
                                                         vid_      |->  vid_[self] ] >>
                                                     \o stack[self]]
                /\ vid_' = [vid_ EXCEPT ![self] = vp_de[self] \o "/" \o ve[self][2] \o Suffix(ve[self][1])]
                /\ vtb_' = [vtb_ EXCEPT ![self] = "doc"]
             /\ pc' = [pc EXCEPT ![self] = "cl1"]
             /\ UNCHANGED << obj, pref, cref, doc, mark, keep, locked, waitq, 
                             woken, ev, result, rdata, vtb, vid, vp_, vc_t, 
                             va_, vb_, vout, vmade, vrp, vrl_, vp_s, vc_s, 
                             vval, vx_, vc, vb_d, vx_d, vp_d, vc_, vcls, vrl_d, 
                             va_d, vb_de, vx_de, vdels, vdocs, vf_, vp_de, 
                             vtodo, vkeepl, vmarked, ve, vp_p, vf_p, vver, 
                             vp_g, vf_g, vx_g, vp_del, vf, vx_del, vp_delm, vp, 
                             vc_r, vrl, va, vb, vx >>

dm6(self) == /\ pc[self] = "dm6"
             /\ ev' = Ev(self, "stat", P(NextKind(ve[self][1]), vp_de[self] \o "/" \o ve[self][2]), NoPath,
                         FN(P(NextKind(ve[self][1]), vp_de[self] \o "/" \o ve[self][2]) \in mark))
             /\ pc' = [pc EXCEPT ![self] = "dm7"]
             /\ UNCHANGED << obj, pref, cref, doc, mark, keep, locked, waitq, 
                             woken, result, rdata, stack, vtb_, vid_, vtb, vid, 
                             vp_, vc_t, va_, vb_, vout, vmade, vrp, vrl_, vp_s, 
                             vc_s, vval, vx_, vc, vb_d, vx_d, vp_d, vc_, vcls, 
                             vrl_d, va_d, vb_de, vx_de, vdels, vdocs, vf_, 
                             vp_de, vtodo, vkeepl, vmarked, ve, vp_p, vf_p, 
                             vver, vp_g, vf_g, vx_g, vp_del, vf, vx_del, 
                             vp_delm, vp, vc_r, vrl, va, vb, vx >>

dm7(self) == /\ pc[self] = "dm7"
             /\ IF Here(ve[self][1], vp_de[self], ve[self][2])
                   THEN /\ IF ve[self][1] = "doc"
                              THEN /\ doc' = [doc EXCEPT ![vp_de[self]][ve[self][2]] = None]
                                   /\ mark' = mark
                              ELSE /\ mark' = mark \ {P(ve[self][1], vp_de[self] \o "/" \o ve[self][2])}
                                   /\ doc' = doc
                        /\ pc' = [pc EXCEPT ![self] = "dm7b"]
                        /\ ev' = ev
                   ELSE /\ ev' = Ev(self, "rename", P(ve[self][1], vp_de[self] \o "/" \o ve[self][2]), P(NextKind(ve[self][1]), vp_de[self] \o "/" \o ve[self][2]), "!fnf")
                        /\ pc' = [pc EXCEPT ![self] = "mf1"]
                        /\ UNCHANGED << doc, mark >>
             /\ UNCHANGED << obj, pref, cref, keep, locked, waitq, woken, 
                             result, rdata, stack, vtb_, vid_, vtb, vid, vp_, 
                             vc_t, va_, vb_, vout, vmade, vrp, vrl_, vp_s, 
                             vc_s, vval, vx_, vc, vb_d, vx_d, vp_d, vc_, vcls, 
                             vrl_d, va_d, vb_de, vx_de, vdels, vdocs, vf_, 
                             vp_de, vtodo, vkeepl, vmarked, ve, vp_p, vf_p, 
                             vver, vp_g, vf_g, vx_g, vp_del, vf, vx_del, 
                             vp_delm, vp, vc_r, vrl, va, vb, vx >>

dm7b(self) == /\ pc[self] = "dm7b"
              /\ mark' = (mark \cup {P(NextKind(ve[self][1]), vp_de[self] \o "/" \o ve[self][2])})
              /\ vmarked' = [vmarked EXCEPT ![self] = vmarked[self] \cup {<<NextKind(ve[self][1]), ve[self][2]>>}]
              /\ ev' = Ev(self, "rename", P(ve[self][1], vp_de[self] \o "/" \o ve[self][2]), P(NextKind(ve[self][1]), vp_de[self] \o "/" \o ve[self][2]), "ok")
              /\ pc' = [pc EXCEPT ![self] = "dm8"]
              /\ UNCHANGED << obj, pref, cref, doc, keep, locked, waitq, woken, 
                              result, rdata, stack, vtb_, vid_, vtb, vid, vp_, 
                              vc_t, va_, vb_, vout, vmade, vrp, vrl_, vp_s, 
                              vc_s, vval, vx_, vc, vb_d, vx_d, vp_d, vc_, vcls, 
                              vrl_d, va_d, vb_de, vx_de, vdels, vdocs, vf_, 
                              vp_de, vtodo, vkeepl, ve, vp_p, vf_p, vver, vp_g, 
                              vf_g, vx_g, vp_del, vf, vx_del, vp_delm, vp, 
                              vc_r, vrl, va, vb, vx >>

mf1(self) == /\ pc[self] = "mf1"
             /\ ev' = Ev(self, "stat", P(ve[self][1], vp_de[self] \o "/" \o ve[self][2]), NoPath, FN(Here(ve[self][1], vp_de[self], ve[self][2])))
             /\ pc' = [pc EXCEPT ![self] = "mf2"]
             /\ UNCHANGED << obj, pref, cref, doc, mark, keep, locked, waitq, 
                             woken, result, rdata, stack, vtb_, vid_, vtb, vid, 
                             vp_, vc_t, va_, vb_, vout, vmade, vrp, vrl_, vp_s, 
                             vc_s, vval, vx_, vc, vb_d, vx_d, vp_d, vc_, vcls, 
                             vrl_d, va_d, vb_de, vx_de, vdels, vdocs, vf_, 
                             vp_de, vtodo, vkeepl, vmarked, ve, vp_p, vf_p, 
                             vver, vp_g, vf_g, vx_g, vp_del, vf, vx_del, 
                             vp_delm, vp, vc_r, vrl, va, vb, vx >>

mf2(self) == /\ pc[self] = "mf2"
             /\ ev' = Ev(self, "stat", P(ve[self][1], vp_de[self] \o "/" \o ve[self][2]), NoPath, FN(Here(ve[self][1], vp_de[self], ve[self][2])))
             /\ pc' = [pc EXCEPT ![self] = "mf3"]
             /\ UNCHANGED << obj, pref, cref, doc, mark, keep, locked, waitq, 
                             woken, result, rdata, stack, vtb_, vid_, vtb, vid, 
                             vp_, vc_t, va_, vb_, vout, vmade, vrp, vrl_, vp_s, 
                             vc_s, vval, vx_, vc, vb_d, vx_d, vp_d, vc_, vcls, 
                             vrl_d, va_d, vb_de, vx_de, vdels, vdocs, vf_, 
                             vp_de, vtodo, vkeepl, vmarked, ve, vp_p, vf_p, 
                             vver, vp_g, vf_g, vx_g, vp_del, vf, vx_del, 
                             vp_delm, vp, vc_r, vrl, va, vb, vx >>

mf3(self) == /\ pc[self] = "mf3"
             /\ ev' = Ev(self, "stat", P(NextKind(ve[self][1]), vp_de[self] \o "/" \o ve[self][2]), NoPath,
                         FN(P(NextKind(ve[self][1]), vp_de[self] \o "/" \o ve[self][2]) \in mark))
             /\ pc' = [pc EXCEPT ![self] = "mf4"]
             /\ UNCHANGED << obj, pref, cref, doc, mark, keep, locked, waitq, 
                             woken, result, rdata, stack, vtb_, vid_, vtb, vid, 
                             vp_, vc_t, va_, vb_, vout, vmade, vrp, vrl_, vp_s, 
                             vc_s, vval, vx_, vc, vb_d, vx_d, vp_d, vc_, vcls, 
                             vrl_d, va_d, vb_de, vx_de, vdels, vdocs, vf_, 
                             vp_de, vtodo, vkeepl, vmarked, ve, vp_p, vf_p, 
                             vver, vp_g, vf_g, vx_g, vp_del, vf, vx_del, 
                             vp_delm, vp, vc_r, vrl, va, vb, vx >>

mf4(self) == /\ pc[self] = "mf4"
             /\ ev' = Ev(self, "stat", P(ve[self][1], vp_de[self] \o "/" \o ve[self][2]), NoPath, FN(Here(ve[self][1], vp_de[self], ve[self][2])))
             /\ pc' = [pc EXCEPT ![self] = "mf5"]
             /\ UNCHANGED << obj, pref, cref, doc, mark, keep, locked, waitq, 
                             woken, result, rdata, stack, vtb_, vid_, vtb, vid, 
                             vp_, vc_t, va_, vb_, vout, vmade, vrp, vrl_, vp_s, 
                             vc_s, vval, vx_, vc, vb_d, vx_d, vp_d, vc_, vcls, 
                             vrl_d, va_d, vb_de, vx_de, vdels, vdocs, vf_, 
                             vp_de, vtodo, vkeepl, vmarked, ve, vp_p, vf_p, 
                             vver, vp_g, vf_g, vx_g, vp_del, vf, vx_del, 
                             vp_delm, vp, vc_r, vrl, va, vb, vx >>

mf5(self) == /\ pc[self] = "mf5"
             /\ ev' = Ev(self, "stat", P(ve[self][1], vp_de[self] \o "/" \o ve[self][2]), NoPath, FN(Here(ve[self][1], vp_de[self], ve[self][2])))
             /\ pc' = [pc EXCEPT ![self] = "mf6"]
             /\ UNCHANGED << obj, pref, cref, doc, mark, keep, locked, waitq, 
                             woken, result, rdata, stack, vtb_, vid_, vtb, vid, 
                             vp_, vc_t, va_, vb_, vout, vmade, vrp, vrl_, vp_s, 
                             vc_s, vval, vx_, vc, vb_d, vx_d, vp_d, vc_, vcls, 
                             vrl_d, va_d, vb_de, vx_de, vdels, vdocs, vf_, 
                             vp_de, vtodo, vkeepl, vmarked, ve, vp_p, vf_p, 
                             vver, vp_g, vf_g, vx_g, vp_del, vf, vx_del, 
                             vp_delm, vp, vc_r, vrl, va, vb, vx >>

mf6(self) == /\ pc[self] = "mf6"
             /\ ev' = Ev(self, "stat", P(NextKind(ve[self][1]), vp_de[self] \o "/" \o ve[self][2]), NoPath,
                         FN(P(NextKind(ve[self][1]), vp_de[self] \o "/" \o ve[self][2]) \in mark))
             /\ pc' = [pc EXCEPT ![self] = "mf7"]
             /\ UNCHANGED << obj, pref, cref, doc, mark, keep, locked, waitq, 
                             woken, result, rdata, stack, vtb_, vid_, vtb, vid, 
                             vp_, vc_t, va_, vb_, vout, vmade, vrp, vrl_, vp_s, 
                             vc_s, vval, vx_, vc, vb_d, vx_d, vp_d, vc_, vcls, 
                             vrl_d, va_d, vb_de, vx_de, vdels, vdocs, vf_, 
                             vp_de, vtodo, vkeepl, vmarked, ve, vp_p, vf_p, 
                             vver, vp_g, vf_g, vx_g, vp_del, vf, vx_del, 
                             vp_delm, vp, vc_r, vrl, va, vb, vx >>

mf7(self) == /\ pc[self] = "mf7"
             /\ IF ve[self][1] = "doc"
                   THEN /\ ev' = Ev(self, "read", P(ve[self][1], vp_de[self] \o "/" \o ve[self][2]), NoPath, "!fnf")
                   ELSE /\ TRUE
                        /\ ev' = ev
             /\ pc' = [pc EXCEPT ![self] = "dm8"]
             /\ UNCHANGED << obj, pref, cref, doc, mark, keep, locked, waitq, 
                             woken, result, rdata, stack, vtb_, vid_, vtb, vid, 
                             vp_, vc_t, va_, vb_, vout, vmade, vrp, vrl_, vp_s, 
                             vc_s, vval, vx_, vc, vb_d, vx_d, vp_d, vc_, vcls, 
                             vrl_d, va_d, vb_de, vx_de, vdels, vdocs, vf_, 
                             vp_de, vtodo, vkeepl, vmarked, ve, vp_p, vf_p, 
                             vver, vp_g, vf_g, vx_g, vp_del, vf, vx_del, 
                             vp_delm, vp, vc_r, vrl, va, vb, vx >>

dm8(self) == /\ pc[self] = "dm8"
             /\ /\ stack' = [stack EXCEPT ![self] = << [ procedure |->  "release",
                                                         pc        |->  "dm4",
                                                         vtb       |->  vtb[self],
                                                         vid       |->  vid[self] ] >>
                                                     \o stack[self]]
                /\ vid' = [vid EXCEPT ![self] = vp_de[self] \o "/" \o ve[self][2] \o Suffix(ve[self][1])]
                /\ vtb' = [vtb EXCEPT ![self] = "doc"]
             /\ pc' = [pc EXCEPT ![self] = "rl1"]
             /\ UNCHANGED << obj, pref, cref, doc, mark, keep, locked, waitq, 
                             woken, ev, result, rdata, vtb_, vid_, vp_, vc_t, 
                             va_, vb_, vout, vmade, vrp, vrl_, vp_s, vc_s, 
                             vval, vx_, vc, vb_d, vx_d, vp_d, vc_, vcls, vrl_d, 
                             va_d, vb_de, vx_de, vdels, vdocs, vf_, vp_de, 
                             vtodo, vkeepl, vmarked, ve, vp_p, vf_p, vver, 
                             vp_g, vf_g, vx_g, vp_del, vf, vx_del, vp_delm, vp, 
                             vc_r, vrl, va, vb, vx >>

dm9(self) == /\ pc[self] = "dm9"
             /\ IF vmarked[self] # {}
                   THEN /\ \E vx0 \in vmarked[self]:
                             /\ ve' = [ve EXCEPT ![self] = vx0]
                             /\ vmarked' = [vmarked EXCEPT ![self] = vmarked[self] \ {vx0}]
                        /\ pc' = [pc EXCEPT ![self] = "dm10"]
                   ELSE /\ pc' = [pc EXCEPT ![self] = "dm11"]
                        /\ UNCHANGED << vmarked, ve >>
             /\ UNCHANGED << obj, pref, cref, doc, mark, keep, locked, waitq, 
                             woken, ev, result, rdata, stack, vtb_, vid_, vtb, 
                             vid, vp_, vc_t, va_, vb_, vout, vmade, vrp, vrl_, 
                             vp_s, vc_s, vval, vx_, vc, vb_d, vx_d, vp_d, vc_, 
                             vcls, vrl_d, va_d, vb_de, vx_de, vdels, vdocs, 
                             vf_, vp_de, vtodo, vkeepl, vp_p, vf_p, vver, vp_g, 
                             vf_g, vx_g, vp_del, vf, vx_del, vp_delm, vp, vc_r, 
                             vrl, va, vb, vx >>

dm10(self) == /\ pc[self] = "dm10"
              /\ IF P(ve[self][1], vp_de[self] \o "/" \o ve[self][2]) \in mark
                    THEN /\ mark' = mark \ {P(ve[self][1], vp_de[self] \o "/" \o ve[self][2])}
                         /\ ev' = Ev(self, "remove", P(ve[self][1], vp_de[self] \o "/" \o ve[self][2]), NoPath, "ok")
                    ELSE /\ ev' = Ev(self, "remove", P(ve[self][1], vp_de[self] \o "/" \o ve[self][2]), NoPath, "!fnf")
                         /\ mark' = mark
              /\ pc' = [pc EXCEPT ![self] = "dm9"]
              /\ UNCHANGED << obj, pref, cref, doc, keep, locked, waitq, woken, 
                              result, rdata, stack, vtb_, vid_, vtb, vid, vp_, 
                              vc_t, va_, vb_, vout, vmade, vrp, vrl_, vp_s, 
                              vc_s, vval, vx_, vc, vb_d, vx_d, vp_d, vc_, vcls, 
                              vrl_d, va_d, vb_de, vx_de, vdels, vdocs, vf_, 
                              vp_de, vtodo, vkeepl, vmarked, ve, vp_p, vf_p, 
                              vver, vp_g, vf_g, vx_g, vp_del, vf, vx_del, 
                              vp_delm, vp, vc_r, vrl, va, vb, vx >>

dm11(self) == /\ pc[self] = "dm11"
              /\ pc' = [pc EXCEPT ![self] = Head(stack[self]).pc]
              /\ vtodo' = [vtodo EXCEPT ![self] = Head(stack[self]).vtodo]
              /\ vkeepl' = [vkeepl EXCEPT ![self] = Head(stack[self]).vkeepl]
              /\ vmarked' = [vmarked EXCEPT ![self] = Head(stack[self]).vmarked]
              /\ ve' = [ve EXCEPT ![self] = Head(stack[self]).ve]
              /\ vp_de' = [vp_de EXCEPT ![self] = Head(stack[self]).vp_de]
              /\ stack' = [stack EXCEPT ![self] = Tail(stack[self])]
              /\ UNCHANGED << obj, pref, cref, doc, mark, keep, locked, waitq, 
                              woken, ev, result, rdata, vtb_, vid_, vtb, vid, 
                              vp_, vc_t, va_, vb_, vout, vmade, vrp, vrl_, 
                              vp_s, vc_s, vval, vx_, vc, vb_d, vx_d, vp_d, vc_, 
                              vcls, vrl_d, va_d, vb_de, vx_de, vdels, vdocs, 
                              vf_, vp_p, vf_p, vver, vp_g, vf_g, vx_g, vp_del, 
                              vf, vx_del, vp_delm, vp, vc_r, vrl, va, vb, vx >>

delmeta_all(self) == dm1(self) \/ dm2(self) \/ dm3(self) \/ dm4(self)
                        \/ dm5(self) \/ dm6(self) \/ dm7(self)
                        \/ dm7b(self) \/ mf1(self) \/ mf2(self)
                        \/ mf3(self) \/ mf4(self) \/ mf5(self) \/ mf6(self)
                        \/ mf7(self) \/ dm8(self) \/ dm9(self)
                        \/ dm10(self) \/ dm11(self)

pm1(self) == /\ pc[self] = "pm1"
             /\ /\ stack' = [stack EXCEPT ![self] = << [ procedure |->  "claim",
                                                         pc        |->  "pm2",
                                                         vtb_      |->  vtb_[self],
                                                         vid_      |->  vid_[self] ] >>
                                                     \o stack[self]]
                /\ vid_' = [vid_ EXCEPT ![self] = vp_p[self] \o "/" \o vf_p[self]]
                /\ vtb_' = [vtb_ EXCEPT ![self] = "doc"]
             /\ pc' = [pc EXCEPT ![self] = "cl1"]
             /\ UNCHANGED << obj, pref, cref, doc, mark, keep, locked, waitq, 
                             woken, ev, result, rdata, vtb, vid, vp_, vc_t, 
                             va_, vb_, vout, vmade, vrp, vrl_, vp_s, vc_s, 
                             vval, vx_, vc, vb_d, vx_d, vp_d, vc_, vcls, vrl_d, 
                             va_d, vb_de, vx_de, vdels, vdocs, vf_, vp_de, 
                             vtodo, vkeepl, vmarked, ve, vp_p, vf_p, vver, 
                             vp_g, vf_g, vx_g, vp_del, vf, vx_del, vp_delm, vp, 
                             vc_r, vrl, va, vb, vx >>

pm2(self) == /\ pc[self] = "pm2"
             /\ ev' = Ev(self, "stat", P("doc", vp_p[self] \o "/" \o vf_p[self]), NoPath, FN(doc[vp_p[self]][vf_p[self]] # None))
             /\ pc' = [pc EXCEPT ![self] = "pm3"]
             /\ UNCHANGED << obj, pref, cref, doc, mark, keep, locked, waitq, 
                             woken, result, rdata, stack, vtb_, vid_, vtb, vid, 
                             vp_, vc_t, va_, vb_, vout, vmade, vrp, vrl_, vp_s, 
                             vc_s, vval, vx_, vc, vb_d, vx_d, vp_d, vc_, vcls, 
                             vrl_d, va_d, vb_de, vx_de, vdels, vdocs, vf_, 
                             vp_de, vtodo, vkeepl, vmarked, ve, vp_p, vf_p, 
                             vver, vp_g, vf_g, vx_g, vp_del, vf, vx_del, 
                             vp_delm, vp, vc_r, vrl, va, vb, vx >>

pm3(self) == /\ pc[self] = "pm3"
             /\ doc' = [doc EXCEPT ![vp_p[self]][vf_p[self]] = vver[self]]
             /\ ev' = Ev(self, "rename", P("tmp", "metadata"), P("doc", vp_p[self] \o "/" \o vf_p[self]), "ok")
             /\ pc' = [pc EXCEPT ![self] = "pm4"]
             /\ UNCHANGED << obj, pref, cref, mark, keep, locked, waitq, woken, 
                             result, rdata, stack, vtb_, vid_, vtb, vid, vp_, 
                             vc_t, va_, vb_, vout, vmade, vrp, vrl_, vp_s, 
                             vc_s, vval, vx_, vc, vb_d, vx_d, vp_d, vc_, vcls, 
                             vrl_d, va_d, vb_de, vx_de, vdels, vdocs, vf_, 
                             vp_de, vtodo, vkeepl, vmarked, ve, vp_p, vf_p, 
                             vver, vp_g, vf_g, vx_g, vp_del, vf, vx_del, 
                             vp_delm, vp, vc_r, vrl, va, vb, vx >>

pm4(self) == /\ pc[self] = "pm4"
             /\ /\ stack' = [stack EXCEPT ![self] = << [ procedure |->  "release",
                                                         pc        |->  "pm5",
                                                         vtb       |->  vtb[self],
                                                         vid       |->  vid[self] ] >>
                                                     \o stack[self]]
                /\ vid' = [vid EXCEPT ![self] = vp_p[self] \o "/" \o vf_p[self]]
                /\ vtb' = [vtb EXCEPT ![self] = "doc"]
             /\ pc' = [pc EXCEPT ![self] = "rl1"]
             /\ UNCHANGED << obj, pref, cref, doc, mark, keep, locked, waitq, 
                             woken, ev, result, rdata, vtb_, vid_, vp_, vc_t, 
                             va_, vb_, vout, vmade, vrp, vrl_, vp_s, vc_s, 
                             vval, vx_, vc, vb_d, vx_d, vp_d, vc_, vcls, vrl_d, 
                             va_d, vb_de, vx_de, vdels, vdocs, vf_, vp_de, 
                             vtodo, vkeepl, vmarked, ve, vp_p, vf_p, vver, 
                             vp_g, vf_g, vx_g, vp_del, vf, vx_del, vp_delm, vp, 
                             vc_r, vrl, va, vb, vx >>

pm5(self) == /\ pc[self] = "pm5"
             /\ result' = [result EXCEPT ![self] = "ok"]
             /\ pc' = [pc EXCEPT ![self] = Head(stack[self]).pc]
             /\ vp_p' = [vp_p EXCEPT ![self] = Head(stack[self]).vp_p]
             /\ vf_p' = [vf_p EXCEPT ![self] = Head(stack[self]).vf_p]
             /\ vver' = [vver EXCEPT ![self] = Head(stack[self]).vver]
             /\ stack' = [stack EXCEPT ![self] = Tail(stack[self])]
             /\ UNCHANGED << obj, pref, cref, doc, mark, keep, locked, waitq, 
                             woken, ev, rdata, vtb_, vid_, vtb, vid, vp_, vc_t, 
                             va_, vb_, vout, vmade, vrp, vrl_, vp_s, vc_s, 
                             vval, vx_, vc, vb_d, vx_d, vp_d, vc_, vcls, vrl_d, 
                             va_d, vb_de, vx_de, vdels, vdocs, vf_, vp_de, 
                             vtodo, vkeepl, vmarked, ve, vp_g, vf_g, vx_g, 
                             vp_del, vf, vx_del, vp_delm, vp, vc_r, vrl, va, 
                             vb, vx >>

putmeta(self) == pm1(self) \/ pm2(self) \/ pm3(self) \/ pm4(self)
                    \/ pm5(self)

gm1(self) == /\ pc[self] = "gm1"
             /\ vx_g' = [vx_g EXCEPT ![self] = doc[vp_g[self]][vf_g[self]] # None]
             /\ ev' = Ev(self, "stat", P("doc", vp_g[self] \o "/" \o vf_g[self]), NoPath, FN(vx_g'[self]))
             /\ IF ~vx_g'[self]
                   THEN /\ result' = [result EXCEPT ![self] = "notfound"]
                        /\ pc' = [pc EXCEPT ![self] = "gm4"]
                   ELSE /\ pc' = [pc EXCEPT ![self] = "gm2"]
                        /\ UNCHANGED result
             /\ UNCHANGED << obj, pref, cref, doc, mark, keep, locked, waitq, 
                             woken, rdata, stack, vtb_, vid_, vtb, vid, vp_, 
                             vc_t, va_, vb_, vout, vmade, vrp, vrl_, vp_s, 
                             vc_s, vval, vx_, vc, vb_d, vx_d, vp_d, vc_, vcls, 
                             vrl_d, va_d, vb_de, vx_de, vdels, vdocs, vf_, 
                             vp_de, vtodo, vkeepl, vmarked, ve, vp_p, vf_p, 
                             vver, vp_g, vf_g, vp_del, vf, vx_del, vp_delm, vp, 
                             vc_r, vrl, va, vb, vx >>

gm2(self) == /\ pc[self] = "gm2"
             /\ vx_g' = [vx_g EXCEPT ![self] = doc[vp_g[self]][vf_g[self]] # None]
             /\ ev' = Ev(self, "stat", P("doc", vp_g[self] \o "/" \o vf_g[self]), NoPath, FN(vx_g'[self]))
             /\ IF ~vx_g'[self]
                   THEN /\ result' = [result EXCEPT ![self] = "notfound"]
                        /\ pc' = [pc EXCEPT ![self] = "gm4"]
                   ELSE /\ pc' = [pc EXCEPT ![self] = "gm3"]
                        /\ UNCHANGED result
             /\ UNCHANGED << obj, pref, cref, doc, mark, keep, locked, waitq, 
                             woken, rdata, stack, vtb_, vid_, vtb, vid, vp_, 
                             vc_t, va_, vb_, vout, vmade, vrp, vrl_, vp_s, 
                             vc_s, vval, vx_, vc, vb_d, vx_d, vp_d, vc_, vcls, 
                             vrl_d, va_d, vb_de, vx_de, vdels, vdocs, vf_, 
                             vp_de, vtodo, vkeepl, vmarked, ve, vp_p, vf_p, 
                             vver, vp_g, vf_g, vp_del, vf, vx_del, vp_delm, vp, 
                             vc_r, vrl, va, vb, vx >>

gm3(self) == /\ pc[self] = "gm3"
             /\ IF doc[vp_g[self]][vf_g[self]] = None
                   THEN /\ ev' = Ev(self, "read", P("doc", vp_g[self] \o "/" \o vf_g[self]), NoPath, "!fnf")
                        /\ result' = [result EXCEPT ![self] = "notfound"]
                        /\ rdata' = rdata
                   ELSE /\ ev' = EvV(self, "read", P("doc", vp_g[self] \o "/" \o vf_g[self]), NoPath, "ok", <<doc[vp_g[self]][vf_g[self]]>>)
                        /\ result' = [result EXCEPT ![self] = "ok"]
                        /\ rdata' = [rdata EXCEPT ![self] = doc[vp_g[self]][vf_g[self]]]
             /\ pc' = [pc EXCEPT ![self] = "gm4"]
             /\ UNCHANGED << obj, pref, cref, doc, mark, keep, locked, waitq, 
                             woken, stack, vtb_, vid_, vtb, vid, vp_, vc_t, 
                             va_, vb_, vout, vmade, vrp, vrl_, vp_s, vc_s, 
                             vval, vx_, vc, vb_d, vx_d, vp_d, vc_, vcls, vrl_d, 
                             va_d, vb_de, vx_de, vdels, vdocs, vf_, vp_de, 
                             vtodo, vkeepl, vmarked, ve, vp_p, vf_p, vver, 
                             vp_g, vf_g, vx_g, vp_del, vf, vx_del, vp_delm, vp, 
                             vc_r, vrl, va, vb, vx >>

gm4(self) == /\ pc[self] = "gm4"
             /\ pc' = [pc EXCEPT ![self] = Head(stack[self]).pc]
             /\ vx_g' = [vx_g EXCEPT ![self] = Head(stack[self]).vx_g]
             /\ vp_g' = [vp_g EXCEPT ![self] = Head(stack[self]).vp_g]
             /\ vf_g' = [vf_g EXCEPT ![self] = Head(stack[self]).vf_g]
             /\ stack' = [stack EXCEPT ![self] = Tail(stack[self])]
             /\ UNCHANGED << obj, pref, cref, doc, mark, keep, locked, waitq, 
                             woken, ev, result, rdata, vtb_, vid_, vtb, vid, 
                             vp_, vc_t, va_, vb_, vout, vmade, vrp, vrl_, vp_s, 
                             vc_s, vval, vx_, vc, vb_d, vx_d, vp_d, vc_, vcls, 
                             vrl_d, va_d, vb_de, vx_de, vdels, vdocs, vf_, 
                             vp_de, vtodo, vkeepl, vmarked, ve, vp_p, vf_p, 
                             vver, vp_del, vf, vx_del, vp_delm, vp, vc_r, vrl, 
                             va, vb, vx >>

getmeta(self) == gm1(self) \/ gm2(self) \/ gm3(self) \/ gm4(self)

do1(self) == /\ pc[self] = "do1"
             /\ /\ stack' = [stack EXCEPT ![self] = << [ procedure |->  "claim",
                                                         pc        |->  "do2",
                                                         vtb_      |->  vtb_[self],
                                                         vid_      |->  vid_[self] ] >>
                                                     \o stack[self]]
                /\ vid_' = [vid_ EXCEPT ![self] = vp_del[self] \o "/" \o vf[self]]
                /\ vtb_' = [vtb_ EXCEPT ![self] = "doc"]
             /\ pc' = [pc EXCEPT ![self] = "cl1"]
             /\ UNCHANGED << obj, pref, cref, doc, mark, keep, locked, waitq, 
                             woken, ev, result, rdata, vtb, vid, vp_, vc_t, 
                             va_, vb_, vout, vmade, vrp, vrl_, vp_s, vc_s, 
                             vval, vx_, vc, vb_d, vx_d, vp_d, vc_, vcls, vrl_d, 
                             va_d, vb_de, vx_de, vdels, vdocs, vf_, vp_de, 
                             vtodo, vkeepl, vmarked, ve, vp_p, vf_p, vver, 
                             vp_g, vf_g, vx_g, vp_del, vf, vx_del, vp_delm, vp, 
                             vc_r, vrl, va, vb, vx >>

do2(self) == /\ pc[self] = "do2"
             /\ vx_del' = [vx_del EXCEPT ![self] = doc[vp_del[self]][vf[self]] # None]
             /\ ev' = Ev(self, "stat", P("doc", vp_del[self] \o "/" \o vf[self]), NoPath, FN(vx_del'[self]))
             /\ IF vx_del'[self]
                   THEN /\ pc' = [pc EXCEPT ![self] = "do3"]
                   ELSE /\ pc' = [pc EXCEPT ![self] = "do4"]
             /\ UNCHANGED << obj, pref, cref, doc, mark, keep, locked, waitq, 
                             woken, result, rdata, stack, vtb_, vid_, vtb, vid, 
                             vp_, vc_t, va_, vb_, vout, vmade, vrp, vrl_, vp_s, 
                             vc_s, vval, vx_, vc, vb_d, vx_d, vp_d, vc_, vcls, 
                             vrl_d, va_d, vb_de, vx_de, vdels, vdocs, vf_, 
                             vp_de, vtodo, vkeepl, vmarked, ve, vp_p, vf_p, 
                             vver, vp_g, vf_g, vx_g, vp_del, vf, vp_delm, vp, 
                             vc_r, vrl, va, vb, vx >>

do3(self) == /\ pc[self] = "do3"
             /\ IF doc[vp_del[self]][vf[self]] = None
                   THEN /\ ev' = Ev(self, "remove", P("doc", vp_del[self] \o "/" \o vf[self]), NoPath, "!fnf")
                        /\ result' = [result EXCEPT ![self] = "ioerror"]
                        /\ doc' = doc
                   ELSE /\ doc' = [doc EXCEPT ![vp_del[self]][vf[self]] = None]
                        /\ ev' = Ev(self, "remove", P("doc", vp_del[self] \o "/" \o vf[self]), NoPath, "ok")
                        /\ UNCHANGED result
             /\ pc' = [pc EXCEPT ![self] = "do5"]
             /\ UNCHANGED << obj, pref, cref, mark, keep, locked, waitq, woken, 
                             rdata, stack, vtb_, vid_, vtb, vid, vp_, vc_t, 
                             va_, vb_, vout, vmade, vrp, vrl_, vp_s, vc_s, 
                             vval, vx_, vc, vb_d, vx_d, vp_d, vc_, vcls, vrl_d, 
                             va_d, vb_de, vx_de, vdels, vdocs, vf_, vp_de, 
                             vtodo, vkeepl, vmarked, ve, vp_p, vf_p, vver, 
                             vp_g, vf_g, vx_g, vp_del, vf, vx_del, vp_delm, vp, 
                             vc_r, vrl, va, vb, vx >>

do4(self) == /\ pc[self] = "do4"
             /\ ev' = Ev(self, "stat", P("doc", vp_del[self] \o "/" \o vf[self]), NoPath, FN(doc[vp_del[self]][vf[self]] # None))
             /\ pc' = [pc EXCEPT ![self] = "do5"]
             /\ UNCHANGED << obj, pref, cref, doc, mark, keep, locked, waitq, 
                             woken, result, rdata, stack, vtb_, vid_, vtb, vid, 
                             vp_, vc_t, va_, vb_, vout, vmade, vrp, vrl_, vp_s, 
                             vc_s, vval, vx_, vc, vb_d, vx_d, vp_d, vc_, vcls, 
                             vrl_d, va_d, vb_de, vx_de, vdels, vdocs, vf_, 
                             vp_de, vtodo, vkeepl, vmarked, ve, vp_p, vf_p, 
                             vver, vp_g, vf_g, vx_g, vp_del, vf, vx_del, 
                             vp_delm, vp, vc_r, vrl, va, vb, vx >>

do5(self) == /\ pc[self] = "do5"
             /\ /\ stack' = [stack EXCEPT ![self] = << [ procedure |->  "release",
                                                         pc        |->  "do6",
                                                         vtb       |->  vtb[self],
                                                         vid       |->  vid[self] ] >>
                                                     \o stack[self]]
                /\ vid' = [vid EXCEPT ![self] = vp_del[self] \o "/" \o vf[self]]
                /\ vtb' = [vtb EXCEPT ![self] = "doc"]
             /\ pc' = [pc EXCEPT ![self] = "rl1"]
             /\ UNCHANGED << obj, pref, cref, doc, mark, keep, locked, waitq, 
                             woken, ev, result, rdata, vtb_, vid_, vp_, vc_t, 
                             va_, vb_, vout, vmade, vrp, vrl_, vp_s, vc_s, 
                             vval, vx_, vc, vb_d, vx_d, vp_d, vc_, vcls, vrl_d, 
                             va_d, vb_de, vx_de, vdels, vdocs, vf_, vp_de, 
                             vtodo, vkeepl, vmarked, ve, vp_p, vf_p, vver, 
                             vp_g, vf_g, vx_g, vp_del, vf, vx_del, vp_delm, vp, 
                             vc_r, vrl, va, vb, vx >>

do6(self) == /\ pc[self] = "do6"
             /\ IF result[self] = "-"
                   THEN /\ result' = [result EXCEPT ![self] = "ok"]
                   ELSE /\ TRUE
                        /\ UNCHANGED result
             /\ pc' = [pc EXCEPT ![self] = Head(stack[self]).pc]
             /\ vx_del' = [vx_del EXCEPT ![self] = Head(stack[self]).vx_del]
             /\ vp_del' = [vp_del EXCEPT ![self] = Head(stack[self]).vp_del]
             /\ vf' = [vf EXCEPT ![self] = Head(stack[self]).vf]
             /\ stack' = [stack EXCEPT ![self] = Tail(stack[self])]
             /\ UNCHANGED << obj, pref, cref, doc, mark, keep, locked, waitq, 
                             woken, ev, rdata, vtb_, vid_, vtb, vid, vp_, vc_t, 
                             va_, vb_, vout, vmade, vrp, vrl_, vp_s, vc_s, 
                             vval, vx_, vc, vb_d, vx_d, vp_d, vc_, vcls, vrl_d, 
                             va_d, vb_de, vx_de, vdels, vdocs, vf_, vp_de, 
                             vtodo, vkeepl, vmarked, ve, vp_p, vf_p, vver, 
                             vp_g, vf_g, vx_g, vp_delm, vp, vc_r, vrl, va, vb, 
                             vx >>

delmeta_one(self) == do1(self) \/ do2(self) \/ do3(self) \/ do4(self)
                        \/ do5(self) \/ do6(self)

dt1(self) == /\ pc[self] = "dt1"
             /\ /\ stack' = [stack EXCEPT ![self] = << [ procedure |->  "delmeta_all",
                                                         pc        |->  "dt2",
                                                         vtodo     |->  vtodo[self],
                                                         vkeepl    |->  vkeepl[self],
                                                         vmarked   |->  vmarked[self],
                                                         ve        |->  ve[self],
                                                         vp_de     |->  vp_de[self] ] >>
                                                     \o stack[self]]
                /\ vp_de' = [vp_de EXCEPT ![self] = vp_delm[self]]
             /\ vtodo' = [vtodo EXCEPT ![self] = {}]
             /\ vkeepl' = [vkeepl EXCEPT ![self] = {}]
             /\ vmarked' = [vmarked EXCEPT ![self] = {}]
             /\ ve' = [ve EXCEPT ![self] = <<"-", "-">>]
             /\ pc' = [pc EXCEPT ![self] = "dm1"]
             /\ UNCHANGED << obj, pref, cref, doc, mark, keep, locked, waitq, 
                             woken, ev, result, rdata, vtb_, vid_, vtb, vid, 
                             vp_, vc_t, va_, vb_, vout, vmade, vrp, vrl_, vp_s, 
                             vc_s, vval, vx_, vc, vb_d, vx_d, vp_d, vc_, vcls, 
                             vrl_d, va_d, vb_de, vx_de, vdels, vdocs, vf_, 
                             vp_p, vf_p, vver, vp_g, vf_g, vx_g, vp_del, vf, 
                             vx_del, vp_delm, vp, vc_r, vrl, va, vb, vx >>

dt2(self) == /\ pc[self] = "dt2"
             /\ result' = [result EXCEPT ![self] = "ok"]
             /\ pc' = [pc EXCEPT ![self] = Head(stack[self]).pc]
             /\ vp_delm' = [vp_delm EXCEPT ![self] = Head(stack[self]).vp_delm]
             /\ stack' = [stack EXCEPT ![self] = Tail(stack[self])]
             /\ UNCHANGED << obj, pref, cref, doc, mark, keep, locked, waitq, 
                             woken, ev, rdata, vtb_, vid_, vtb, vid, vp_, vc_t, 
                             va_, vb_, vout, vmade, vrp, vrl_, vp_s, vc_s, 
                             vval, vx_, vc, vb_d, vx_d, vp_d, vc_, vcls, vrl_d, 
                             va_d, vb_de, vx_de, vdels, vdocs, vf_, vp_de, 
                             vtodo, vkeepl, vmarked, ve, vp_p, vf_p, vver, 
                             vp_g, vf_g, vx_g, vp_del, vf, vx_del, vp, vc_r, 
                             vrl, va, vb, vx >>

delmeta_top(self) == dt1(self) \/ dt2(self)

r1(self) == /\ pc[self] = "r1"
            /\ va' = [va EXCEPT ![self] = pref[vp[self]] # None]
            /\ ev' = Ev(self, "stat", P("pidref", vp[self]), NoPath, FN(va'[self]))
            /\ IF ~va'[self]
                  THEN /\ result' = [result EXCEPT ![self] = "nopid"]
                       /\ pc' = [pc EXCEPT ![self] = "r12"]
                  ELSE /\ pc' = [pc EXCEPT ![self] = "r2"]
                       /\ UNCHANGED result
            /\ UNCHANGED << obj, pref, cref, doc, mark, keep, locked, waitq, 
                            woken, rdata, stack, vtb_, vid_, vtb, vid, vp_, 
                            vc_t, va_, vb_, vout, vmade, vrp, vrl_, vp_s, vc_s, 
                            vval, vx_, vc, vb_d, vx_d, vp_d, vc_, vcls, vrl_d, 
                            va_d, vb_de, vx_de, vdels, vdocs, vf_, vp_de, 
                            vtodo, vkeepl, vmarked, ve, vp_p, vf_p, vver, vp_g, 
                            vf_g, vx_g, vp_del, vf, vx_del, vp_delm, vp, vc_r, 
                            vrl, vb, vx >>

r2(self) == /\ pc[self] = "r2"
            /\ IF pref[vp[self]] = None
                  THEN /\ ev' = Ev(self, "read", P("pidref", vp[self]), NoPath, "!fnf")
                       /\ result' = [result EXCEPT ![self] = "ioerror"]
                       /\ pc' = [pc EXCEPT ![self] = "r12"]
                       /\ vc_r' = vc_r
                  ELSE /\ vc_r' = [vc_r EXCEPT ![self] = pref[vp[self]]]
                       /\ ev' = EvV(self, "read", P("pidref", vp[self]), NoPath, "ok", <<vc_r'[self]>>)
                       /\ pc' = [pc EXCEPT ![self] = "r3"]
                       /\ UNCHANGED result
            /\ UNCHANGED << obj, pref, cref, doc, mark, keep, locked, waitq, 
                            woken, rdata, stack, vtb_, vid_, vtb, vid, vp_, 
                            vc_t, va_, vb_, vout, vmade, vrp, vrl_, vp_s, vc_s, 
                            vval, vx_, vc, vb_d, vx_d, vp_d, vc_, vcls, vrl_d, 
                            va_d, vb_de, vx_de, vdels, vdocs, vf_, vp_de, 
                            vtodo, vkeepl, vmarked, ve, vp_p, vf_p, vver, vp_g, 
                            vf_g, vx_g, vp_del, vf, vx_del, vp_delm, vp, vrl, 
                            va, vb, vx >>

r3(self) == /\ pc[self] = "r3"
            /\ vb' = [vb EXCEPT ![self] = cref[vc_r[self]].has]
            /\ ev' = Ev(self, "stat", P("cidref", vc_r[self]), NoPath, StatCid(vc_r[self]))
            /\ IF ~vb'[self]
                  THEN /\ result' = [result EXCEPT ![self] = "inconsistent"]
                       /\ pc' = [pc EXCEPT ![self] = "r12"]
                  ELSE /\ pc' = [pc EXCEPT ![self] = "r4"]
                       /\ UNCHANGED result
            /\ UNCHANGED << obj, pref, cref, doc, mark, keep, locked, waitq, 
                            woken, rdata, stack, vtb_, vid_, vtb, vid, vp_, 
                            vc_t, va_, vb_, vout, vmade, vrp, vrl_, vp_s, vc_s, 
                            vval, vx_, vc, vb_d, vx_d, vp_d, vc_, vcls, vrl_d, 
                            va_d, vb_de, vx_de, vdels, vdocs, vf_, vp_de, 
                            vtodo, vkeepl, vmarked, ve, vp_p, vf_p, vver, vp_g, 
                            vf_g, vx_g, vp_del, vf, vx_del, vp_delm, vp, vc_r, 
                            vrl, va, vx >>

r4(self) == /\ pc[self] = "r4"
            /\ IF ~cref[vc_r[self]].has
                  THEN /\ ev' = Ev(self, "read", P("cidref", vc_r[self]), NoPath, "!fnf")
                       /\ result' = [result EXCEPT ![self] = "ioerror"]
                       /\ pc' = [pc EXCEPT ![self] = "r12"]
                       /\ vrl' = vrl
                  ELSE /\ vrl' = [vrl EXCEPT ![self] = cref[vc_r[self]].pids]
                       /\ ev' = EvV(self, "read", P("cidref", vc_r[self]), NoPath, "ok", vrl'[self])
                       /\ pc' = [pc EXCEPT ![self] = "r5"]
                       /\ UNCHANGED result
            /\ UNCHANGED << obj, pref, cref, doc, mark, keep, locked, waitq, 
                            woken, rdata, stack, vtb_, vid_, vtb, vid, vp_, 
                            vc_t, va_, vb_, vout, vmade, vrp, vrl_, vp_s, vc_s, 
                            vval, vx_, vc, vb_d, vx_d, vp_d, vc_, vcls, vrl_d, 
                            va_d, vb_de, vx_de, vdels, vdocs, vf_, vp_de, 
                            vtodo, vkeepl, vmarked, ve, vp_p, vf_p, vver, vp_g, 
                            vf_g, vx_g, vp_del, vf, vx_del, vp_delm, vp, vc_r, 
                            va, vb, vx >>

r5(self) == /\ pc[self] = "r5"
            /\ IF ~InSeq(vp[self], vrl[self])
                  THEN /\ result' = [result EXCEPT ![self] = "inconsistent"]
                       /\ pc' = [pc EXCEPT ![self] = "r12"]
                  ELSE /\ pc' = [pc EXCEPT ![self] = "r6"]
                       /\ UNCHANGED result
            /\ UNCHANGED << obj, pref, cref, doc, mark, keep, locked, waitq, 
                            woken, ev, rdata, stack, vtb_, vid_, vtb, vid, vp_, 
                            vc_t, va_, vb_, vout, vmade, vrp, vrl_, vp_s, vc_s, 
                            vval, vx_, vc, vb_d, vx_d, vp_d, vc_, vcls, vrl_d, 
                            va_d, vb_de, vx_de, vdels, vdocs, vf_, vp_de, 
                            vtodo, vkeepl, vmarked, ve, vp_p, vf_p, vver, vp_g, 
                            vf_g, vx_g, vp_del, vf, vx_del, vp_delm, vp, vc_r, 
                            vrl, va, vb, vx >>

r6(self) == /\ pc[self] = "r6"
            /\ vx' = [vx EXCEPT ![self] = obj[vc_r[self]] = "ok"]
            /\ ev' = Ev(self, "stat", P("obj", vc_r[self]), NoPath, FN(vx'[self]))
            /\ IF ~vx'[self]
                  THEN /\ pc' = [pc EXCEPT ![self] = "r6b"]
                  ELSE /\ pc' = [pc EXCEPT ![self] = "r7"]
            /\ UNCHANGED << obj, pref, cref, doc, mark, keep, locked, waitq, 
                            woken, result, rdata, stack, vtb_, vid_, vtb, vid, 
                            vp_, vc_t, va_, vb_, vout, vmade, vrp, vrl_, vp_s, 
                            vc_s, vval, vx_, vc, vb_d, vx_d, vp_d, vc_, vcls, 
                            vrl_d, va_d, vb_de, vx_de, vdels, vdocs, vf_, 
                            vp_de, vtodo, vkeepl, vmarked, ve, vp_p, vf_p, 
                            vver, vp_g, vf_g, vx_g, vp_del, vf, vx_del, 
                            vp_delm, vp, vc_r, vrl, va, vb >>

r6b(self) == /\ pc[self] = "r6b"
             /\ ev' = Ev(self, "stat", P("obj", vc_r[self]), NoPath, FN(obj[vc_r[self]] = "ok"))
             /\ result' = [result EXCEPT ![self] = "inconsistent"]
             /\ pc' = [pc EXCEPT ![self] = "r12"]
             /\ UNCHANGED << obj, pref, cref, doc, mark, keep, locked, waitq, 
                             woken, rdata, stack, vtb_, vid_, vtb, vid, vp_, 
                             vc_t, va_, vb_, vout, vmade, vrp, vrl_, vp_s, 
                             vc_s, vval, vx_, vc, vb_d, vx_d, vp_d, vc_, vcls, 
                             vrl_d, va_d, vb_de, vx_de, vdels, vdocs, vf_, 
                             vp_de, vtodo, vkeepl, vmarked, ve, vp_p, vf_p, 
                             vver, vp_g, vf_g, vx_g, vp_del, vf, vx_del, 
                             vp_delm, vp, vc_r, vrl, va, vb, vx >>

r7(self) == /\ pc[self] = "r7"
            /\ vx' = [vx EXCEPT ![self] = obj[vc_r[self]] = "ok"]
            /\ ev' = Ev(self, "stat", P("obj", vc_r[self]), NoPath, FN(vx'[self]))
            /\ IF ~vx'[self]
                  THEN /\ pc' = [pc EXCEPT ![self] = "r7b"]
                  ELSE /\ pc' = [pc EXCEPT ![self] = "r8"]
            /\ UNCHANGED << obj, pref, cref, doc, mark, keep, locked, waitq, 
                            woken, result, rdata, stack, vtb_, vid_, vtb, vid, 
                            vp_, vc_t, va_, vb_, vout, vmade, vrp, vrl_, vp_s, 
                            vc_s, vval, vx_, vc, vb_d, vx_d, vp_d, vc_, vcls, 
                            vrl_d, va_d, vb_de, vx_de, vdels, vdocs, vf_, 
                            vp_de, vtodo, vkeepl, vmarked, ve, vp_p, vf_p, 
                            vver, vp_g, vf_g, vx_g, vp_del, vf, vx_del, 
                            vp_delm, vp, vc_r, vrl, va, vb >>

r7b(self) == /\ pc[self] = "r7b"
             /\ ev' = Ev(self, "stat", P("obj", vc_r[self]), NoPath, FN(obj[vc_r[self]] = "ok"))
             /\ result' = [result EXCEPT ![self] = "ioerror"]
             /\ pc' = [pc EXCEPT ![self] = "r12"]
             /\ UNCHANGED << obj, pref, cref, doc, mark, keep, locked, waitq, 
                             woken, rdata, stack, vtb_, vid_, vtb, vid, vp_, 
                             vc_t, va_, vb_, vout, vmade, vrp, vrl_, vp_s, 
                             vc_s, vval, vx_, vc, vb_d, vx_d, vp_d, vc_, vcls, 
                             vrl_d, va_d, vb_de, vx_de, vdels, vdocs, vf_, 
                             vp_de, vtodo, vkeepl, vmarked, ve, vp_p, vf_p, 
                             vver, vp_g, vf_g, vx_g, vp_del, vf, vx_del, 
                             vp_delm, vp, vc_r, vrl, va, vb, vx >>

r8(self) == /\ pc[self] = "r8"
            /\ ev' = Ev(self, "stat", P("doc", vp[self] \o "/" \o DefaultNs), NoPath, FN(doc[vp[self]][DefaultNs] # None))
            /\ pc' = [pc EXCEPT ![self] = "r9"]
            /\ UNCHANGED << obj, pref, cref, doc, mark, keep, locked, waitq, 
                            woken, result, rdata, stack, vtb_, vid_, vtb, vid, 
                            vp_, vc_t, va_, vb_, vout, vmade, vrp, vrl_, vp_s, 
                            vc_s, vval, vx_, vc, vb_d, vx_d, vp_d, vc_, vcls, 
                            vrl_d, va_d, vb_de, vx_de, vdels, vdocs, vf_, 
                            vp_de, vtodo, vkeepl, vmarked, ve, vp_p, vf_p, 
                            vver, vp_g, vf_g, vx_g, vp_del, vf, vx_del, 
                            vp_delm, vp, vc_r, vrl, va, vb, vx >>

r9(self) == /\ pc[self] = "r9"
            /\ vx' = [vx EXCEPT ![self] = obj[vc_r[self]] = "ok"]
            /\ ev' = Ev(self, "stat", P("obj", vc_r[self]), NoPath, FN(vx'[self]))
            /\ IF ~vx'[self]
                  THEN /\ pc' = [pc EXCEPT ![self] = "r9b"]
                  ELSE /\ pc' = [pc EXCEPT ![self] = "r10"]
            /\ UNCHANGED << obj, pref, cref, doc, mark, keep, locked, waitq, 
                            woken, result, rdata, stack, vtb_, vid_, vtb, vid, 
                            vp_, vc_t, va_, vb_, vout, vmade, vrp, vrl_, vp_s, 
                            vc_s, vval, vx_, vc, vb_d, vx_d, vp_d, vc_, vcls, 
                            vrl_d, va_d, vb_de, vx_de, vdels, vdocs, vf_, 
                            vp_de, vtodo, vkeepl, vmarked, ve, vp_p, vf_p, 
                            vver, vp_g, vf_g, vx_g, vp_del, vf, vx_del, 
                            vp_delm, vp, vc_r, vrl, va, vb >>

r9b(self) == /\ pc[self] = "r9b"
             /\ ev' = Ev(self, "stat", P("obj", vc_r[self]), NoPath, FN(obj[vc_r[self]] = "ok"))
             /\ result' = [result EXCEPT ![self] = "ioerror"]
             /\ pc' = [pc EXCEPT ![self] = "r12"]
             /\ UNCHANGED << obj, pref, cref, doc, mark, keep, locked, waitq, 
                             woken, rdata, stack, vtb_, vid_, vtb, vid, vp_, 
                             vc_t, va_, vb_, vout, vmade, vrp, vrl_, vp_s, 
                             vc_s, vval, vx_, vc, vb_d, vx_d, vp_d, vc_, vcls, 
                             vrl_d, va_d, vb_de, vx_de, vdels, vdocs, vf_, 
                             vp_de, vtodo, vkeepl, vmarked, ve, vp_p, vf_p, 
                             vver, vp_g, vf_g, vx_g, vp_del, vf, vx_del, 
                             vp_delm, vp, vc_r, vrl, va, vb, vx >>

r10(self) == /\ pc[self] = "r10"
             /\ IF obj[vc_r[self]] # "ok"
                   THEN /\ ev' = Ev(self, "read", P("obj", vc_r[self]), NoPath, "!fnf")
                        /\ result' = [result EXCEPT ![self] = "ioerror"]
                        /\ rdata' = rdata
                   ELSE /\ ev' = EvV(self, "read", P("obj", vc_r[self]), NoPath, "ok", <<vc_r[self]>>)
                        /\ result' = [result EXCEPT ![self] = "ok"]
                        /\ rdata' = [rdata EXCEPT ![self] = vc_r[self]]
             /\ pc' = [pc EXCEPT ![self] = "r12"]
             /\ UNCHANGED << obj, pref, cref, doc, mark, keep, locked, waitq, 
                             woken, stack, vtb_, vid_, vtb, vid, vp_, vc_t, 
                             va_, vb_, vout, vmade, vrp, vrl_, vp_s, vc_s, 
                             vval, vx_, vc, vb_d, vx_d, vp_d, vc_, vcls, vrl_d, 
                             va_d, vb_de, vx_de, vdels, vdocs, vf_, vp_de, 
                             vtodo, vkeepl, vmarked, ve, vp_p, vf_p, vver, 
                             vp_g, vf_g, vx_g, vp_del, vf, vx_del, vp_delm, vp, 
                             vc_r, vrl, va, vb, vx >>

r12(self) == /\ pc[self] = "r12"
             /\ pc' = [pc EXCEPT ![self] = Head(stack[self]).pc]
             /\ vc_r' = [vc_r EXCEPT ![self] = Head(stack[self]).vc_r]
             /\ vrl' = [vrl EXCEPT ![self] = Head(stack[self]).vrl]
             /\ va' = [va EXCEPT ![self] = Head(stack[self]).va]
             /\ vb' = [vb EXCEPT ![self] = Head(stack[self]).vb]
             /\ vx' = [vx EXCEPT ![self] = Head(stack[self]).vx]
             /\ vp' = [vp EXCEPT ![self] = Head(stack[self]).vp]
             /\ stack' = [stack EXCEPT ![self] = Tail(stack[self])]
             /\ UNCHANGED << obj, pref, cref, doc, mark, keep, locked, waitq, 
                             woken, ev, result, rdata, vtb_, vid_, vtb, vid, 
                             vp_, vc_t, va_, vb_, vout, vmade, vrp, vrl_, vp_s, 
                             vc_s, vval, vx_, vc, vb_d, vx_d, vp_d, vc_, vcls, 
                             vrl_d, va_d, vb_de, vx_de, vdels, vdocs, vf_, 
                             vp_de, vtodo, vkeepl, vmarked, ve, vp_p, vf_p, 
                             vver, vp_g, vf_g, vx_g, vp_del, vf, vx_del, 
                             vp_delm >>

retrieve(self) == r1(self) \/ r2(self) \/ r3(self) \/ r4(self) \/ r5(self)
                     \/ r6(self) \/ r6b(self) \/ r7(self) \/ r7b(self)
                     \/ r8(self) \/ r9(self) \/ r9b(self) \/ r10(self)
                     \/ r12(self)

run(self) == /\ pc[self] = "run"
             /\ IF Job[self].op = "store"
                   THEN /\ /\ stack' = [stack EXCEPT ![self] = << [ procedure |->  "store",
                                                                    pc        |->  "fin",
                                                                    vx_       |->  vx_[self],
                                                                    vp_s      |->  vp_s[self],
                                                                    vc_s      |->  vc_s[self],
                                                                    vval      |->  vval[self] ] >>
                                                                \o stack[self]]
                           /\ vc_s' = [vc_s EXCEPT ![self] = Job[self].c]
                           /\ vp_s' = [vp_s EXCEPT ![self] = Job[self].pid]
                           /\ vval' = [vval EXCEPT ![self] = Job[self].val]
                        /\ vx_' = [vx_ EXCEPT ![self] = FALSE]
                        /\ pc' = [pc EXCEPT ![self] = "st1"]
                        /\ UNCHANGED << result, vp_, vc_t, va_, vb_, vout, 
                                        vmade, vrp, vrl_, vc, vb_d, vx_d, vp_d, 
                                        vc_, vcls, vrl_d, va_d, vb_de, vx_de, 
                                        vdels, vdocs, vf_, vp_p, vf_p, vver, 
                                        vp_g, vf_g, vx_g, vp_del, vf, vx_del, 
                                        vp_delm, vp, vc_r, vrl, va, vb, vx >>
                   ELSE /\ IF Job[self].op = "storenp"
                              THEN /\ /\ stack' = [stack EXCEPT ![self] = << [ procedure |->  "store",
                                                                               pc        |->  "fin",
                                                                               vx_       |->  vx_[self],
                                                                               vp_s      |->  vp_s[self],
                                                                               vc_s      |->  vc_s[self],
                                                                               vval      |->  vval[self] ] >>
                                                                           \o stack[self]]
                                      /\ vc_s' = [vc_s EXCEPT ![self] = Job[self].c]
                                      /\ vp_s' = [vp_s EXCEPT ![self] = "-"]
                                      /\ vval' = [vval EXCEPT ![self] = "none"]
                                   /\ vx_' = [vx_ EXCEPT ![self] = FALSE]
                                   /\ pc' = [pc EXCEPT ![self] = "st1"]
                                   /\ UNCHANGED << result, vp_, vc_t, va_, vb_, 
                                                   vout, vmade, vrp, vrl_, vc, 
                                                   vb_d, vx_d, vp_d, vc_, vcls, 
                                                   vrl_d, va_d, vb_de, vx_de, 
                                                   vdels, vdocs, vf_, vp_p, 
                                                   vf_p, vver, vp_g, vf_g, 
                                                   vx_g, vp_del, vf, vx_del, 
                                                   vp_delm, vp, vc_r, vrl, va, 
                                                   vb, vx >>
                              ELSE /\ IF Job[self].op = "tag"
                                         THEN /\ /\ stack' = [stack EXCEPT ![self] = << [ procedure |->  "tag",
                                                                                          pc        |->  "fin",
                                                                                          va_       |->  va_[self],
                                                                                          vb_       |->  vb_[self],
                                                                                          vout      |->  vout[self],
                                                                                          vmade     |->  vmade[self],
                                                                                          vrp       |->  vrp[self],
                                                                                          vrl_      |->  vrl_[self],
                                                                                          vp_       |->  vp_[self],
                                                                                          vc_t      |->  vc_t[self] ] >>
                                                                                      \o stack[self]]
                                                 /\ vc_t' = [vc_t EXCEPT ![self] = Job[self].c]
                                                 /\ vp_' = [vp_ EXCEPT ![self] = Job[self].pid]
                                              /\ va_' = [va_ EXCEPT ![self] = FALSE]
                                              /\ vb_' = [vb_ EXCEPT ![self] = FALSE]
                                              /\ vout' = [vout EXCEPT ![self] = "ok"]
                                              /\ vmade' = [vmade EXCEPT ![self] = FALSE]
                                              /\ vrp' = [vrp EXCEPT ![self] = None]
                                              /\ vrl_' = [vrl_ EXCEPT ![self] = <<>>]
                                              /\ pc' = [pc EXCEPT ![self] = "tg1"]
                                              /\ UNCHANGED << result, vc, vb_d, 
                                                              vx_d, vp_d, vc_, 
                                                              vcls, vrl_d, 
                                                              va_d, vb_de, 
                                                              vx_de, vdels, 
                                                              vdocs, vf_, vp_p, 
                                                              vf_p, vver, vp_g, 
                                                              vf_g, vx_g, 
                                                              vp_del, vf, 
                                                              vx_del, vp_delm, 
                                                              vp, vc_r, vrl, 
                                                              va, vb, vx >>
                                         ELSE /\ IF Job[self].op = "delete"
                                                    THEN /\ /\ stack' = [stack EXCEPT ![self] = << [ procedure |->  "delete",
                                                                                                     pc        |->  "fin",
                                                                                                     vc_       |->  vc_[self],
                                                                                                     vcls      |->  vcls[self],
                                                                                                     vrl_d     |->  vrl_d[self],
                                                                                                     va_d      |->  va_d[self],
                                                                                                     vb_de     |->  vb_de[self],
                                                                                                     vx_de     |->  vx_de[self],
                                                                                                     vdels     |->  vdels[self],
                                                                                                     vdocs     |->  vdocs[self],
                                                                                                     vf_       |->  vf_[self],
                                                                                                     vp_d      |->  vp_d[self] ] >>
                                                                                                 \o stack[self]]
                                                            /\ vp_d' = [vp_d EXCEPT ![self] = Job[self].pid]
                                                         /\ vc_' = [vc_ EXCEPT ![self] = None]
                                                         /\ vcls' = [vcls EXCEPT ![self] = "-"]
                                                         /\ vrl_d' = [vrl_d EXCEPT ![self] = <<>>]
                                                         /\ va_d' = [va_d EXCEPT ![self] = FALSE]
                                                         /\ vb_de' = [vb_de EXCEPT ![self] = FALSE]
                                                         /\ vx_de' = [vx_de EXCEPT ![self] = FALSE]
                                                         /\ vdels' = [vdels EXCEPT ![self] = {}]
                                                         /\ vdocs' = [vdocs EXCEPT ![self] = {}]
                                                         /\ vf_' = [vf_ EXCEPT ![self] = "-"]
                                                         /\ pc' = [pc EXCEPT ![self] = "d1"]
                                                         /\ UNCHANGED << result, 
                                                                         vc, 
                                                                         vb_d, 
                                                                         vx_d, 
                                                                         vp_p, 
                                                                         vf_p, 
                                                                         vver, 
                                                                         vp_g, 
                                                                         vf_g, 
                                                                         vx_g, 
                                                                         vp_del, 
                                                                         vf, 
                                                                         vx_del, 
                                                                         vp_delm, 
                                                                         vp, 
                                                                         vc_r, 
                                                                         vrl, 
                                                                         va, 
                                                                         vb, 
                                                                         vx >>
                                                    ELSE /\ IF Job[self].op = "dii"
                                                               THEN /\ IF Job[self].val = "good"
                                                                          THEN /\ result' = [result EXCEPT ![self] = "ok"]
                                                                               /\ pc' = [pc EXCEPT ![self] = "fin"]
                                                                               /\ UNCHANGED << stack, 
                                                                                               vc, 
                                                                                               vb_d, 
                                                                                               vx_d >>
                                                                          ELSE /\ /\ stack' = [stack EXCEPT ![self] = << [ procedure |->  "diibad",
                                                                                                                           pc        |->  "fin",
                                                                                                                           vb_d      |->  vb_d[self],
                                                                                                                           vx_d      |->  vx_d[self],
                                                                                                                           vc        |->  vc[self] ] >>
                                                                                                                       \o stack[self]]
                                                                                  /\ vc' = [vc EXCEPT ![self] = Job[self].c]
                                                                               /\ vb_d' = [vb_d EXCEPT ![self] = FALSE]
                                                                               /\ vx_d' = [vx_d EXCEPT ![self] = FALSE]
                                                                               /\ pc' = [pc EXCEPT ![self] = "di1"]
                                                                               /\ UNCHANGED result
                                                                    /\ UNCHANGED << vp_p, 
                                                                                    vf_p, 
                                                                                    vver, 
                                                                                    vp_g, 
                                                                                    vf_g, 
                                                                                    vx_g, 
                                                                                    vp_del, 
                                                                                    vf, 
                                                                                    vx_del, 
                                                                                    vp_delm, 
                                                                                    vp, 
                                                                                    vc_r, 
                                                                                    vrl, 
                                                                                    va, 
                                                                                    vb, 
                                                                                    vx >>
                                                               ELSE /\ IF Job[self].op = "retrieve"
                                                                          THEN /\ /\ stack' = [stack EXCEPT ![self] = << [ procedure |->  "retrieve",
                                                                                                                           pc        |->  "fin",
                                                                                                                           vc_r      |->  vc_r[self],
                                                                                                                           vrl       |->  vrl[self],
                                                                                                                           va        |->  va[self],
                                                                                                                           vb        |->  vb[self],
                                                                                                                           vx        |->  vx[self],
                                                                                                                           vp        |->  vp[self] ] >>
                                                                                                                       \o stack[self]]
                                                                                  /\ vp' = [vp EXCEPT ![self] = Job[self].pid]
                                                                               /\ vc_r' = [vc_r EXCEPT ![self] = None]
                                                                               /\ vrl' = [vrl EXCEPT ![self] = <<>>]
                                                                               /\ va' = [va EXCEPT ![self] = FALSE]
                                                                               /\ vb' = [vb EXCEPT ![self] = FALSE]
                                                                               /\ vx' = [vx EXCEPT ![self] = FALSE]
                                                                               /\ pc' = [pc EXCEPT ![self] = "r1"]
                                                                               /\ UNCHANGED << vp_p, 
                                                                                               vf_p, 
                                                                                               vver, 
                                                                                               vp_g, 
                                                                                               vf_g, 
                                                                                               vx_g, 
                                                                                               vp_del, 
                                                                                               vf, 
                                                                                               vx_del, 
                                                                                               vp_delm >>
                                                                          ELSE /\ IF Job[self].op = "putmeta"
                                                                                     THEN /\ /\ stack' = [stack EXCEPT ![self] = << [ procedure |->  "putmeta",
                                                                                                                                      pc        |->  "fin",
                                                                                                                                      vp_p      |->  vp_p[self],
                                                                                                                                      vf_p      |->  vf_p[self],
                                                                                                                                      vver      |->  vver[self] ] >>
                                                                                                                                  \o stack[self]]
                                                                                             /\ vf_p' = [vf_p EXCEPT ![self] = EffFmt(Job[self].fmt)]
                                                                                             /\ vp_p' = [vp_p EXCEPT ![self] = Job[self].pid]
                                                                                             /\ vver' = [vver EXCEPT ![self] = Job[self].ver]
                                                                                          /\ pc' = [pc EXCEPT ![self] = "pm1"]
                                                                                          /\ UNCHANGED << vp_g, 
                                                                                                          vf_g, 
                                                                                                          vx_g, 
                                                                                                          vp_del, 
                                                                                                          vf, 
                                                                                                          vx_del, 
                                                                                                          vp_delm >>
                                                                                     ELSE /\ IF Job[self].op = "getmeta"
                                                                                                THEN /\ /\ stack' = [stack EXCEPT ![self] = << [ procedure |->  "getmeta",
                                                                                                                                                 pc        |->  "fin",
                                                                                                                                                 vx_g      |->  vx_g[self],
                                                                                                                                                 vp_g      |->  vp_g[self],
                                                                                                                                                 vf_g      |->  vf_g[self] ] >>
                                                                                                                                             \o stack[self]]
                                                                                                        /\ vf_g' = [vf_g EXCEPT ![self] = EffFmt(Job[self].fmt)]
                                                                                                        /\ vp_g' = [vp_g EXCEPT ![self] = Job[self].pid]
                                                                                                     /\ vx_g' = [vx_g EXCEPT ![self] = FALSE]
                                                                                                     /\ pc' = [pc EXCEPT ![self] = "gm1"]
                                                                                                     /\ UNCHANGED << vp_del, 
                                                                                                                     vf, 
                                                                                                                     vx_del, 
                                                                                                                     vp_delm >>
                                                                                                ELSE /\ IF Job[self].op = "delmeta"
                                                                                                           THEN /\ IF Job[self].fmt = NoFmt
                                                                                                                      THEN /\ /\ stack' = [stack EXCEPT ![self] = << [ procedure |->  "delmeta_top",
                                                                                                                                                                       pc        |->  "fin",
                                                                                                                                                                       vp_delm   |->  vp_delm[self] ] >>
                                                                                                                                                                   \o stack[self]]
                                                                                                                              /\ vp_delm' = [vp_delm EXCEPT ![self] = Job[self].pid]
                                                                                                                           /\ pc' = [pc EXCEPT ![self] = "dt1"]
                                                                                                                           /\ UNCHANGED << vp_del, 
                                                                                                                                           vf, 
                                                                                                                                           vx_del >>
                                                                                                                      ELSE /\ /\ stack' = [stack EXCEPT ![self] = << [ procedure |->  "delmeta_one",
                                                                                                                                                                       pc        |->  "fin",
                                                                                                                                                                       vx_del    |->  vx_del[self],
                                                                                                                                                                       vp_del    |->  vp_del[self],
                                                                                                                                                                       vf        |->  vf[self] ] >>
                                                                                                                                                                   \o stack[self]]
                                                                                                                              /\ vf' = [vf EXCEPT ![self] = Job[self].fmt]
                                                                                                                              /\ vp_del' = [vp_del EXCEPT ![self] = Job[self].pid]
                                                                                                                           /\ vx_del' = [vx_del EXCEPT ![self] = FALSE]
                                                                                                                           /\ pc' = [pc EXCEPT ![self] = "do1"]
                                                                                                                           /\ UNCHANGED vp_delm
                                                                                                           ELSE /\ pc' = [pc EXCEPT ![self] = "fin"]
                                                                                                                /\ UNCHANGED << stack, 
                                                                                                                                vp_del, 
                                                                                                                                vf, 
                                                                                                                                vx_del, 
                                                                                                                                vp_delm >>
                                                                                                     /\ UNCHANGED << vp_g, 
                                                                                                                     vf_g, 
                                                                                                                     vx_g >>
                                                                                          /\ UNCHANGED << vp_p, 
                                                                                                          vf_p, 
                                                                                                          vver >>
                                                                               /\ UNCHANGED << vp, 
                                                                                               vc_r, 
                                                                                               vrl, 
                                                                                               va, 
                                                                                               vb, 
                                                                                               vx >>
                                                                    /\ UNCHANGED << result, 
                                                                                    vc, 
                                                                                    vb_d, 
                                                                                    vx_d >>
                                                         /\ UNCHANGED << vp_d, 
                                                                         vc_, 
                                                                         vcls, 
                                                                         vrl_d, 
                                                                         va_d, 
                                                                         vb_de, 
                                                                         vx_de, 
                                                                         vdels, 
                                                                         vdocs, 
                                                                         vf_ >>
                                              /\ UNCHANGED << vp_, vc_t, va_, 
                                                              vb_, vout, vmade, 
                                                              vrp, vrl_ >>
                                   /\ UNCHANGED << vp_s, vc_s, vval, vx_ >>
             /\ UNCHANGED << obj, pref, cref, doc, mark, keep, locked, waitq, 
                             woken, ev, rdata, vtb_, vid_, vtb, vid, vp_de, 
                             vtodo, vkeepl, vmarked, ve >>

fin(self) == /\ pc[self] = "fin"
             /\ TRUE
             /\ pc' = [pc EXCEPT ![self] = "Done"]
             /\ UNCHANGED << obj, pref, cref, doc, mark, keep, locked, waitq, 
                             woken, ev, result, rdata, stack, vtb_, vid_, vtb, 
                             vid, vp_, vc_t, va_, vb_, vout, vmade, vrp, vrl_, 
                             vp_s, vc_s, vval, vx_, vc, vb_d, vx_d, vp_d, vc_, 
                             vcls, vrl_d, va_d, vb_de, vx_de, vdels, vdocs, 
                             vf_, vp_de, vtodo, vkeepl, vmarked, ve, vp_p, 
                             vf_p, vver, vp_g, vf_g, vx_g, vp_del, vf, vx_del, 
                             vp_delm, vp, vc_r, vrl, va, vb, vx >>

proc(self) == run(self) \/ fin(self)

(* Allow infinite stuttering to prevent deadlock on termination. *)
Terminating == /\ \A self \in ProcSet: pc[self] = "Done"
               /\ UNCHANGED vars

Next == (\E self \in ProcSet:  \/ claim(self) \/ release(self) \/ tag(self)
                               \/ store(self) \/ diibad(self)
                               \/ delete(self) \/ delmeta_all(self)
                               \/ putmeta(self) \/ getmeta(self)
                               \/ delmeta_one(self) \/ delmeta_top(self)
                               \/ retrieve(self))
           \/ (\E self \in Thread: proc(self))
           \/ Terminating

Spec == /\ Init /\ [][Next]_vars
        /\ \A self \in Thread : /\ WF_vars(proc(self))
                                /\ WF_vars(store(self))
                                /\ WF_vars(tag(self))
                                /\ WF_vars(delete(self))
                                /\ WF_vars(diibad(self))
                                /\ WF_vars(retrieve(self))
                                /\ WF_vars(putmeta(self))
                                /\ WF_vars(getmeta(self))
                                /\ WF_vars(delmeta_top(self))
                                /\ WF_vars(delmeta_one(self))
                                /\ WF_vars(claim(self))
                                /\ WF_vars(release(self))
                                /\ WF_vars(delmeta_all(self))

Termination == <>(\A self \in ProcSet: pc[self] = "Done")

\* END TRANSLATION 

=============================================================================
