#!/bin/sh
# usage: tools_mutant.sh <patch.diff> <check id>...   (applies to /repo, runs checks quick, reverts)
P="$1"; shift
cd /repo || exit 2
git diff --quiet || { echo "repo dirty"; exit 2; }
git apply "$P" 2>/dev/null || patch -p1 -s --fuzz=3 < "$P" || { echo "patch does not apply"; git checkout -- .; exit 2; }
find . -name '*.orig' -delete; find . -name '*.rej' -delete
for c in "$@"; do
  (cd /verif && ./check $c --tier ${TIER:-quick} 2>&1 | grep -E "^(VIOLATION|RESULT|KNOWN|DRIFT|MACHINERY)" | cut -c1-${COLS:-300} | head -${LINES_MAX:-6})
done
git -C /repo checkout -- . 
