"""OS-level interposer: every file-system operation the store performs is observed (and
can be delayed, failed or turned into a crash) at Python's system-call boundary.

Wrapped: os.stat lstat open rename replace remove unlink mkdir rmdir listdir scandir chmod
truncate link symlink, io.open / builtins.open, fcntl.flock, and the file objects opened
under the store root (each read / write / truncate / close is one operation, writes are
flushed so that the system calls happen where the code asks for them).
shutil, pathlib, tempfile, os.path.* all bottom out in these, so the observation does not
depend on which helper the code uses.
"""
import builtins
import fcntl
import io
import os
import threading

_REAL = {}
_CTX = None            # the active Context (one at a time)
_install_lock = threading.Lock()


def real(name):
    return _REAL[name]


class Context:
    """Decides what happens at each intercepted operation."""

    def __init__(self, root, classify=None):
        self.root = os.path.realpath(str(root))
        self.classify = classify or (lambda p: ("other", p))
        self.log = []            # every op: (thread tag, opname, token, outcome)
        self.count = 0
        self.enabled = True
        self.keep_log = True
        self.after_paths = False
        self.flocks = {}         # path -> holder tag (scheduler-level model of flock)
        self.inside = threading.local()

    # -- policy hooks (overridden / assigned by users) --
    def intercepts(self):
        return True

    def before(self, op, token, n):
        """Called before the n-th intercepted operation. May raise to inject a fault."""

    def after(self, op, token, n, outcome):
        pass

    # -- helpers --
    def under(self, p):
        try:
            p = os.fspath(p)
        except TypeError:
            return None
        if isinstance(p, bytes):
            p = os.fsdecode(p)
        if not os.path.isabs(p):
            p = os.path.join(os.getcwd(), p)
        p = os.path.normpath(p)
        if p == self.root or p.startswith(self.root + os.sep):
            return p
        return None

    def run(self, op, paths, call, summarize=None):
        if getattr(self.inside, "v", False):
            return call()
        self.inside.v = True
        try:
            self.count += 1
            n = self.count
            token = tuple(self.classify(p) for p in paths)
            self.cur_paths = paths
            self.before(op, token, n)
        finally:
            self.inside.v = False
        try:
            r = call()
        except BaseException as e:  # noqa
            out = "!" + type(e).__name__
            self._after(op, token, n, out, paths)
            raise
        out = summarize(r) if summarize else "ok"
        self._after(op, token, n, out, paths)
        return r

    def _after(self, op, token, n, out, paths=()):
        self.inside.v = True
        try:
            if self.keep_log:
                self.log.append((n, op, token, out))
            self.after(op, token, n, out, paths) if self.after_paths else \
                self.after(op, token, n, out)
        finally:
            self.inside.v = False


def _ctx_for(*paths):
    c = _CTX
    if c is None or not c.enabled or getattr(c.inside, "v", False) or not c.intercepts():
        return None, None
    ps = []
    for p in paths:
        if isinstance(p, int):
            continue
        u = c.under(p)
        if u is not None:
            ps.append(u)
    if not ps:
        return None, None
    return c, ps


def _stat_summary(st):
    import stat as _s
    return "D" if _s.S_ISDIR(st.st_mode) else "F%d" % st.st_size


def _data_summary(r):
    import hashlib
    if isinstance(r, str):
        r = r.encode("utf-8", "surrogatepass")
    if isinstance(r, (list, tuple)):
        r = "\x00".join(x if isinstance(x, str) else x.decode("latin1") for x in r).encode(
            "utf-8", "surrogatepass")
    return "h" + hashlib.sha1(r).hexdigest()[:10] + ":%d" % len(r)


def _wrap_path1(name, summarize=None):
    realf = _REAL[name]

    def w(path, *a, **k):
        c, ps = _ctx_for(path)
        if c is None:
            return realf(path, *a, **k)
        return c.run(name, ps, lambda: realf(path, *a, **k), summarize)
    w.__name__ = name
    return w


def _wrap_path2(name):
    realf = _REAL[name]

    def w(src, dst, *a, **k):
        c, ps = _ctx_for(src, dst)
        if c is None:
            return realf(src, dst, *a, **k)
        return c.run(name, ps, lambda: realf(src, dst, *a, **k))
    w.__name__ = name
    return w


class FileProxy:
    """Wraps a file object opened under the root: each I/O method is one operation."""

    def __init__(self, f, ctx, path, mode):
        object.__setattr__(self, "_f", f)
        object.__setattr__(self, "_ctx", ctx)
        object.__setattr__(self, "_path", path)
        object.__setattr__(self, "_mode", mode)

    def _op(self, name, call, summarize=None):
        c = self._ctx
        if _CTX is not c or not c.enabled or not c.intercepts():
            return call()
        p = self._path
        if p is None:
            p = c.under(getattr(self._f, "name", "")) or str(getattr(self._f, "name", "?"))
        return c.run("f." + name, [p], call, summarize)

    def read(self, *a):
        return self._op("read", lambda: self._f.read(*a), _data_summary)

    def readline(self, *a):
        return self._op("read", lambda: self._f.readline(*a), _data_summary)

    def readlines(self, *a):
        return self._op("read", lambda: self._f.readlines(*a), _data_summary)

    def _staged(self):
        """A staged file (<area>/tmp/...): its buffering is left as the code set it up, so that
        data the code has not flushed or closed yet is NOT on disk when the file is renamed
        into place or the process dies.  Files written in place at permanent paths are flushed
        after every write, so that every stage of an in-place rewrite is observable."""
        p = self._path
        if p is None:
            p = str(getattr(self._f, "name", ""))
        parts = str(p).replace("\\", "/").split("/")
        return "tmp" in parts[-3:-1]

    def write(self, data):
        def do():
            r = self._f.write(data)
            if not self._staged():
                self._f.flush()
            return r
        return self._op("write", do, lambda r: "n%d" % len(data))

    def writelines(self, lines):
        lines = list(lines)

        def do():
            self._f.writelines(lines)
            if not self._staged():
                self._f.flush()
        return self._op("write", do, lambda r: "l%d" % len(lines))

    def truncate(self, *a):
        def do():
            self._f.flush()
            return self._f.truncate(*a)
        return self._op("truncate", do)

    def close(self):
        if self._f.closed:
            return self._f.close()
        return self._op("close", lambda: self._f.close())

    def __iter__(self):
        return self

    def __next__(self):
        line = self.readline()
        if not line:
            raise StopIteration
        return line

    def __enter__(self):
        self._f.__enter__()
        return self

    def __exit__(self, *a):
        self.close()
        return False

    def __getattr__(self, name):
        return getattr(self._f, name)

    def __setattr__(self, name, value):
        setattr(self._f, name, value)


def _open_wrapper(file, mode="r", *a, **k):
    realopen = _REAL["io.open"]
    if isinstance(file, int) or k.get("opener") is not None:
        f = realopen(file, mode, *a, **k)
        c = _CTX
        if c is not None and k.get("opener") is not None and c.enabled and c.intercepts() \
                and not getattr(c.inside, "v", False):
            # tempfile: the opener created the file through os.open (already intercepted)
            nm = getattr(f, "name", None)
            u = c.under(file)
            if u is not None:
                return FileProxy(f, c, None, mode)
        return f
    c, ps = _ctx_for(file)
    if c is None:
        return realopen(file, mode, *a, **k)
    f = c.run("open:" + _mode_class(mode), ps, lambda: realopen(file, mode, *a, **k))
    return FileProxy(f, c, ps[0], mode)


def _mode_class(mode):
    if "+" in mode:
        return "rw"
    if "a" in mode:
        return "a"
    if "w" in mode or "x" in mode:
        return "w"
    return "r"


def _os_open(path, flags, *a, **k):
    realf = _REAL["os.open"]
    c, ps = _ctx_for(path)
    if c is None:
        return realf(path, flags, *a, **k)
    kind = "create" if flags & os.O_CREAT else "osopen"
    return c.run(kind, ps, lambda: realf(path, flags, *a, **k))


def _flock(fd, op):
    realf = _REAL["fcntl.flock"]
    c = _CTX
    if c is None or not c.enabled or not c.intercepts() or getattr(c.inside, "v", False):
        return realf(fd, op)
    try:
        p = os.readlink("/proc/self/fd/%d" % (fd if isinstance(fd, int) else fd.fileno()))
    except OSError:
        p = None
    u = c.under(p) if p else None
    if u is None:
        return realf(fd, op)
    return c.run("flock", [u], lambda: realf(fd, op))


def _fd_path(fd):
    try:
        return os.readlink("/proc/self/fd/%d" % fd)
    except OSError:
        return None


def _wrap_fdcopy(name, out_index):
    """os.sendfile(out, in, ...) / os.copy_file_range(src, dst, ...): shutil's fast copy
    writes into an open descriptor without going through the file object."""
    realf = _REAL[name]

    def w(*a, **k):
        c = _CTX
        if c is None or not c.enabled or not c.intercepts() or getattr(c.inside, "v", False):
            return realf(*a, **k)
        p = _fd_path(a[out_index]) if len(a) > out_index and isinstance(a[out_index], int) else None
        u = c.under(p) if p else None
        if u is None:
            return realf(*a, **k)
        return c.run("f.write", [u], lambda: realf(*a, **k), lambda r: "n%s" % r)
    w.__name__ = name
    return w


def _listdir(path="."):
    realf = _REAL["os.listdir"]
    c, ps = _ctx_for(path)
    if c is None:
        return realf(path)
    return c.run("listdir", ps, lambda: realf(path), lambda r: ",".join(sorted(r)))


def _scandir(path="."):
    realf = _REAL["os.scandir"]
    c, ps = _ctx_for(path)
    if c is None:
        return realf(path)
    return c.run("listdir", ps, lambda: realf(path))


def install():
    with _install_lock:
        if _REAL:
            return
        for n in ("stat", "lstat", "remove", "unlink", "mkdir", "rmdir", "chmod", "truncate",
                  "rename", "replace", "link", "symlink", "open", "listdir", "scandir"):
            _REAL["os." + n] = getattr(os, n)
            _REAL[n] = getattr(os, n)
        _REAL["io.open"] = io.open
        _REAL["fcntl.flock"] = fcntl.flock
        os.stat = _wrap_path1("stat", _stat_summary)
        os.lstat = _wrap_path1("lstat", _stat_summary)
        for n in ("remove", "unlink", "mkdir", "rmdir", "chmod", "truncate"):
            setattr(os, n, _wrap_path1(n))
        for n in ("rename", "replace", "link", "symlink"):
            setattr(os, n, _wrap_path2(n))
        if hasattr(os, "sendfile"):
            _REAL["sendfile"] = os.sendfile
            os.sendfile = _wrap_fdcopy("sendfile", 0)
        if hasattr(os, "copy_file_range"):
            _REAL["copy_file_range"] = os.copy_file_range
            os.copy_file_range = _wrap_fdcopy("copy_file_range", 1)
        os.open = _os_open
        os.listdir = _listdir
        os.scandir = _scandir
        io.open = _open_wrapper
        builtins.open = _open_wrapper
        fcntl.flock = _flock


class active:
    def __init__(self, ctx):
        self.ctx = ctx

    def __enter__(self):
        global _CTX
        install()
        self.prev = _CTX
        _CTX = self.ctx
        return self.ctx

    def __exit__(self, *a):
        global _CTX
        _CTX = self.prev
