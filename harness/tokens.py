"""Tokeniser: (store root, instantiation) -> classifier of paths into the spec's path classes.

Layout-agnostic like absfn: a path is recognised by its kind directory and by the
concatenation of the tokens below it.  Classes:
  ("obj", c) ("pidref", p) ("cidref", c) ("doc", "p/f")     permanent files
  ("objdel", c) ("pidrefdel", p) ("cidrefdel", c) ("docdel", "p/f")   *_delete markers
  ("tmp", kind)       staged file in <kind>/tmp
  ("dir", kind)       a directory level (shard directories, kind roots, tmp dirs)
  ("yaml", "")  ("other", rel)
Shared (scheduling-relevant) classes are the permanent files and their markers.
"""
import os

SHARED = {"obj", "pidref", "cidref", "doc", "objdel", "pidrefdel", "cidrefdel", "docdel",
          "docdel2", "docdel3", "other"}


def _strip_delete(name):
    k = 0
    while name.endswith("_delete"):
        name = name[:-7]
        k += 1
    return name, k


def make_classifier(root, inst):
    root = os.path.realpath(str(root))
    L = len(inst.hash("x"))

    def classify(p):
        if isinstance(p, tuple):
            p = p[1]
        if p == root:
            return ("dir", "root")
        rel = p[len(root) + 1:] if p.startswith(root + os.sep) else os.path.relpath(p, root)
        parts = rel.split(os.sep)
        top = parts[0]
        if len(parts) == 1:
            if top == "hashstore.yaml":
                return ("yaml", "")
            if top in ("objects", "metadata", "refs"):
                return ("dir", top)
            return ("other", rel)
        if top == "objects":
            if parts[1] == "tmp":
                return ("dir", "objects/tmp") if len(parts) == 2 else ("tmp", "objects")
            name, dele = _strip_delete("".join(parts[1:]))
            if len(name) < L:
                return ("dir", "objects")
            c = inst.cid_rev.get(name, "?")
            return ("objdel" if dele else "obj", c)
        if top == "refs":
            if parts[1] == "tmp":
                return ("dir", "refs/tmp") if len(parts) == 2 else ("tmp", "refs")
            if parts[1] in ("pids", "cids"):
                if len(parts) == 2:
                    return ("dir", "refs/" + parts[1])
                name, dele = _strip_delete("".join(parts[2:]))
                if len(name) < L:
                    return ("dir", "refs/" + parts[1])
                if parts[1] == "pids":
                    x = inst.pidhash_rev.get(name, "?")
                    return ("pidrefdel" if dele else "pidref", x)
                x = inst.cid_rev.get(name, "?")
                return ("cidrefdel" if dele else "cidref", x)
            return ("other", rel)
        if top == "metadata":
            if parts[1] == "tmp":
                return ("dir", "metadata/tmp") if len(parts) == 2 else ("tmp", "metadata")
            joined = "".join(parts[1:])
            if len(joined) <= L:
                return ("dir", "metadata")
            d = "".join(parts[1:-1])
            name, dele = _strip_delete(parts[-1])
            pf = inst.doc_rev.get((d, name))
            x = "%s/%s" % pf if pf else "%s/?" % inst.pidhash_rev.get(d, "?")
            return (("docdel" if dele == 1 else "docdel%d" % dele) if dele else "doc", x)
        return ("other", rel)

    return classify


def is_shared(token):
    return any(t[0] in SHARED for t in token)
