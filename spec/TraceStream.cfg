SPECIFICATION TSpec
CHECK_DEADLOCK FALSE
CONSTRAINT Note
INVARIANT Tiling
INVARIANT PositionRestored
POSTCONDITION Report
