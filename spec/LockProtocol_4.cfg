SPECIFICATION Spec
CONSTANTS
  Thread = {"t1", "t2", "t3", "t4"}
  Id = {"x", "y"}
  Want <- Want4
INVARIANT MutualExclusion
INVARIANT NoDuplicates
INVARIANT ListIsHolders
INVARIANT NoStranding
INVARIANT IndInv
PROPERTY EveryoneFinishes
