----------------------------- MODULE TraceStream -----------------------------
(* code -> spec: the operations FileHashStore performed on caller-supplied streams
   (recorded by a logging wrapper around the stream) must be a behaviour of StreamModel. *)
EXTENDS StreamModel, TLC, Json, IOUtils, TLCExt
Obs == JsonDeserialize(IOEnv.TRACE_FILE)
NR  == Len(Obs.records)
VARIABLES r, l
Rec == Obs.records[r]
TInit == /\ r \in 1..NR /\ l = 1
         /\ N = Obs.records[r].n /\ B = Obs.records[r].b /\ K = Obs.records[r].k
         /\ pos = K /\ saved = 0 /\ chunks = <<>> /\ phase = "new" /\ TLCSet(r, 0)
E == Rec.ops[l]
Step(a, ok) == l <= Len(Rec.ops) /\ a /\ ok /\ l' = l + 1 /\ UNCHANGED r
TNext ==
  \/ Step(Tell,    E.op = "tell" /\ E.res = pos)
  \/ Step(Rewind,  E.op = "seek" /\ E.arg = 0)
  \/ Step(Read,    E.op = "read" /\ E.arg = B /\ E.res = Min(B, N - pos))
  \/ Step(Restore, E.op = "seek" /\ E.arg = saved)
  \/ Step(Close,   E.op = "seek" /\ E.arg = saved)
TSpec == TInit /\ [][TNext]_<<svars, r, l>>
Accepted == l = Len(Rec.ops) + 1 /\ phase = "closed"
Note == ((TLCGet(r) >= 0 /\ TLCGet(r) < l) => TLCSet(r, l)) /\ (Accepted => TLCSet(r, 0 - 1))
Report == \A k \in 1..NR : PrintT("RUN " \o ToString(k) \o " " \o ToString(TLCGet(k)) \o " OF " \o ToString(Len(Obs.records[k].ops)))
=============================================================================
