SPECIFICATION Spec
CHECK_DEADLOCK FALSE
POSTCONDITION AllJudged
INVARIANT I_C20_SameEffect
INVARIANT I_C20_SamePayload
INVARIANT I_C20_SameProps
INVARIANT I_C20_CreateSameEffect
