------------------------------- MODULE Converge -------------------------------
EXTENDS HashStoreAPI
(***************************************************************************)
(* C19  the two documented ways of storing an object converge              *)
(*   one : store_object(pid, data, checksum.., size)                       *)
(*   two : store_object(data) ; delete_if_invalid_object ; tag_object      *)
(*         (the validation step is skipped when no validation data is      *)
(*          given; the caller stops at the first error)                    *)
(***************************************************************************)
ProcOne(s, p, c, v) == Apply(s, Call("store", p, c, v, "-", "-"))
ProcTwo(s, p, c, v) ==
  LET a1 == Apply(s, Call("storenp", "-", c, "-", "-", "-"))
      a2 == IF v = "none" THEN [res |-> ROk, st |-> a1.st]
            ELSE Apply(a1.st, Call("dii", "-", c, v, "-", "-"))
  IN IF a2.res.cls # "ok" THEN [res |-> a2.res, st |-> a2.st, stored |-> a1.res]
     ELSE LET a3 == Apply(a2.st, Call("tag", p, c, "-", "-", "-"))
          IN [res |-> a3.res, st |-> a3.st, stored |-> a1.res]

Converge(s, p, c, v, one, two) ==
  IF v \in {"none", "good"}
    THEN /\ one.st = two.st
         /\ one.res.cls = two.res.cls
         /\ one.res.cls = "ok" => (one.res.cid = two.stored.cid /\ one.res.truth /\ two.stored.truth)
    ELSE /\ one.res.cls = two.res.cls /\ one.res.cls \in {"badsum", "badsize"}
         /\ one.st.pref[p] = s.pref[p] /\ two.st.pref[p] = s.pref[p]
         /\ \A q \in Pid : one.st.pref[q] = s.pref[q] /\ two.st.pref[q] = s.pref[q]
         /\ one.st.cref = s.cref /\ two.st.cref = s.cref
         \* no referenced object is removed or altered (the stepwise way may ADD the bytes
         \* of a referenced-but-missing object: that is not a disturbance)
         /\ \A c2 \in Cid : ((\E q \in Pid : s.pref[q] = c2) /\ s.obj[c2] = "ok")
                                 => one.st.obj[c2] = "ok" /\ two.st.obj[c2] = "ok"

=============================================================================
