----------------------------- MODULE MC_LockApa -----------------------------
(* Apalache: IndInv of LockProtocol is inductive for 4 threads / 2 identifiers.
     apalache-mc check --init=IndInit --inv=IndInv --length=1 MC_LockApa.tla
     apalache-mc check --init=Init    --inv=IndInv --length=0 MC_LockApa.tla      *)
EXTENDS Naturals, Sequences, FiniteSets, Apalache

Thread == {"t1", "t2", "t3", "t4"}
Id == {"x", "y"}
Want == [t \in Thread |-> IF t \in {"t1", "t2"} THEN "x" ELSE "y"]

VARIABLES
  \* @type: Seq(Str);
  locked,
  \* @type: Str;
  mutex,
  \* @type: Seq(Str);
  waitq,
  \* @type: Str -> Str;
  pc

INSTANCE LockProtocol

IndInit ==
  /\ locked = Gen(4) /\ waitq = Gen(4) /\ pc = Gen(4) /\ mutex = Gen(1)
  /\ DOMAIN pc = Thread
  /\ \A k \in DOMAIN locked : locked[k] \in Id
  /\ \A k \in DOMAIN waitq : waitq[k] \in Thread
  /\ IndInv
=============================================================================
