----------------------------- MODULE MCImplCrash -----------------------------
EXTENDS MCImpl
(***************************************************************************)
(* Process death with BOTH calls in flight (C09 / C10 on the model).       *)
(* CrashSpec adds one environment action: at any moment all threads stop   *)
(* (pc frozen, lock state lost); what is left on disk is the abstract      *)
(* store of that moment.  The invariants say what a reopened store may     *)
(* show: permanent files complete (trivially, renames are atomic in the    *)
(* model), every pid OTHER than the ones in flight exactly as before, and  *)
(* an interrupted pid never bound to a different cid than its call (or its *)
(* earlier binding) named.                                                 *)
(***************************************************************************)
VARIABLE crashed
CrashInit == Init /\ crashed = FALSE
CrashNext == \/ (~crashed /\ Next /\ UNCHANGED crashed)
             \/ (~crashed /\ crashed' = TRUE /\ UNCHANGED vars)
CrashSpec == CrashInit /\ [][CrashNext]_<<vars, crashed>>

InFlightPids == {Job[th].pid : th \in Thread} \ {"-"}
Touched(q) == q \in InFlightPids
CountOf(q, cc) == Cardinality({k \in 1..Len(cref[cc].pids) : cref[cc].pids[k] = q})
StartCount(q, cc) == Cardinality({k \in 1..Len(Start.cref[cc].pids) : Start.cref[cc].pids[k] = q})
CrashOthersIntact ==
  crashed => \A q \in Pid : ~Touched(q) =>
     /\ pref[q] = Start.pref[q]
     /\ doc[q] = Start.doc[q]
     /\ \A cc \in Cid : CountOf(q, cc) = StartCount(q, cc)
     \* an object another pid references is never removed by a crash ALONE: it is removed
     \* only if some in-flight call is a deleter of that content (K1 aside)
     /\ (Start.pref[q] \in Cid /\ Start.obj[Start.pref[q]] = "ok"
         /\ ~\E th \in Thread : Job[th].op \in {"delete", "dii"})
          => obj[Start.pref[q]] = "ok"
CrashNoWrongBinding ==
  crashed => \A th \in Thread : Job[th].pid \in Pid =>
     pref[Job[th].pid] \in {None, Start.pref[Job[th].pid]}
                        \cup {Job[u].c : u \in {w \in Thread : Job[w].pid = Job[th].pid
                                                                /\ Job[w].op \in {"store", "tag"}}}
=============================================================================
