"""Sequential, fault-free properties decided by the contract layer:
   TLC model-checks HSProps' clauses on HashStoreAPI over all histories (fixpoint),
   the walker replays every reachable state x every call into the real code,
   TLC (TraceProps) judges every observed step and its conformance to Apply.
"""
import collections
import json

from . import tlc, walker
from .ids import Inst
from .report import Verdict

ALL_OPS = ["store", "storenp", "tag", "delete", "dii", "retrieve", "hex",
           "putmeta", "getmeta", "delmeta", "bad"]

# clause-name prefix -> property
def clause_prop(name):
    return name.split("_")[0]


CONFIGS = {
    # name: (inst kwargs, ops for the model check, ops for the walk)
    "obj2": dict(inst=dict(pids=["p1", "p2"], contents=["a", "b"], extras=["x"],
                           fmts=["fD"], vers=["v1"]),
                 ops=["store", "storenp", "tag", "delete", "dii", "retrieve", "hex",
                      "putmeta", "delmeta"]),
    "obj3": dict(inst=dict(pids=["p1", "p2", "p3"], contents=["a", "b"], extras=["x"],
                           fmts=["fD"], vers=["v1"]),
                 ops=["store", "storenp", "tag", "delete", "dii", "retrieve", "putmeta"]),
    "meta2": dict(inst=dict(pids=["p1", "p2"], contents=["a"], extras=[],
                            fmts=["fD", "f2"], vers=["v1", "v2"]),
                  ops=["store", "delete", "putmeta", "getmeta", "delmeta"]),
    "meta3": dict(inst=dict(pids=["p1", "p2"], contents=["a"], extras=[],
                            fmts=["fD", "f2", "f3"], vers=["v1", "v2"]),
                  ops=["store", "delete", "putmeta", "getmeta", "delmeta"]),
    "bad2": dict(inst=dict(pids=["p1", "p2"], contents=["a", "b"], extras=["x"],
                           fmts=["fD", "f2"], vers=["v1"]),
                 ops=ALL_OPS),
    "bad1": dict(inst=dict(pids=["p1"], contents=["a"], extras=["x"],
                           fmts=["fD"], vers=["v1"]),
                 ops=ALL_OPS),
}


def model_check(consts, v):
    cfg = tlc.fill_template("Contract_inv.cfg.tmpl", consts)
    r = tlc.run_tlc("MCContract", cfg_text=cfg, workers=16)
    if not r.ok:
        v.machinery("contract model check failed: %s %s" % (r.violated, r.errors[:2]))
    return r


def descriptor(clause, rec, chain):
    c = rec["call"]
    return {"clause": clause, "op": c["op"], "val": c["val"], "cls": rec["res"]["cls"],
            "history_len": len(chain)}


def run(prop, tier, seed, cfgname, walk_ops=None, fan_mod=None, inst_over=None,
        level="model_checking", verdict=None, finish=True, props=None):
    """props: set of property ids whose clauses raise VIOLATION in this run."""
    v = verdict or Verdict(prop, tier, seed, level)
    props = props or {prop}
    cfg = CONFIGS[cfgname]
    inst_kw = dict(cfg["inst"])
    if inst_over:
        inst_kw.update(inst_over)
    inst = Inst(**inst_kw)
    consts = dict(inst.constants())
    consts["Ops"] = cfg["ops"]
    # 1. TLC: the contract satisfies every clause on every (state, call) pair
    mc = model_check(consts, v)
    # 2. TLC: distinct states with witness paths, the call alphabet
    paths, calls, pr = walker.contract_paths(consts)
    if walk_ops is not None:
        calls = [c for c in calls if c["op"] in walk_ops]
    # 3. replay into the real code
    rootrec, wall_walk = walker.walk(inst_kw, paths, calls, procs=16,
                                     fan_mod=(fan_mod, seed) if fan_mod else None)
    recs, order, parent = walker.flatten(rootrec)
    # 4. TLC judges every observed step
    viol, drift, jr = walker.judge(recs, consts)
    v.drift += len(drift)
    others = collections.Counter()
    for clause, ns in sorted(viol.items()):
        for n in ns:
            chain = walker.lineage(order, parent, n)
            rec = order[n - 1]
            if clause_prop(clause) in props:
                desc = descriptor(clause, rec, chain)
                replay = {"kind": "sequential", "property": clause_prop(clause),
                          "clause": clause, "config": cfgname, "inst": inst_kw,
                          "inst_concrete": inst.describe(),
                          "history": [{"call": x["call"], "res": x["res"]} for x in chain],
                          "observed_post": rec["post"],
                          "fan_index": rec.get("fan"),
                          "how": "replay `history` on a fresh store with one FileHashStore "
                                 "instance; the last call is the one judged"}
                v.violation(desc, replay)
            else:
                others[clause] += 1
    if others:
        v.notes.append({"clauses_of_other_properties_false": dict(others)})
    for n in drift[:5]:
        chain = walker.lineage(order, parent, n)
        v.notes.append({"drift_sample": [(x["call"]["op"], x["call"]["pid"], x["call"]["c"],
                                          x["call"]["val"], x["call"]["fmt"], x["res"]["cls"])
                                         for x in chain]})
    # coverage numbers (all measured)
    hist = collections.Counter((r["call"]["op"], r["res"]["cls"]) for r in recs[1:])
    changed = sum(1 for r in recs[1:] if not r["same"])
    cov = v.coverage
    cov["states"] = cov.get("states", 0) + mc.distinct
    cov["transitions"] = cov.get("transitions", 0) + mc.generated
    cov["contract_store_states"] = len(paths)
    cov["traces_validated_against_impl"] = cov.get("traces_validated_against_impl", 0) + len(paths)
    cov["observed_steps_judged"] = cov.get("observed_steps_judged", 0) + len(recs) - 1
    cov["state_changing_steps"] = changed
    cov["op_result_histogram"] = {"%s:%s" % k: n for k, n in sorted(hist.items())}
    cov["exhaustive"] = fan_mod is None
    cov["config"] = {"name": cfgname, "constants": consts, "instantiation": inst.describe()}
    cov["tlc_contract"] = {"distinct": mc.distinct, "generated": mc.generated,
                           "depth": mc.depth, "wall_s": round(mc.wall, 1)}
    cov["tlc_trace_judge"] = {"records": len(recs), "wall_s": round(jr.wall, 1)}
    cov["walk_wall_s"] = round(wall_walk, 1)
    sample = walker.lineage(order, parent, len(recs))
    cov.setdefault("samples", []).append(
        [{"call": x["call"], "res": x["res"]} for x in sample])
    cov["checker_cmd"] = "tlc MCContract (Contract_inv.cfg.tmpl) ; tlc TraceProps on observed forest"
    v.assumptions += [
        "alphabet: %s" % json.dumps(consts),
        "fault-free, single-threaded execution (other checks cover schedules, crashes, faults)",
        "abs() recognises files through hashlib reverse tables; anything else is junk",
    ]
    if finish:
        return v.finish()
    return v
