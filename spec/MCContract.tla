------------------------------ MODULE MCContract ------------------------------
(***************************************************************************)
(* Model-checking harness for layer 1.                                     *)
(*  - Contract_inv.cfg  : every clause of HSProps is an invariant of the   *)
(*    contract over ALL histories (finite state space => fixpoint, not a   *)
(*    depth bound).  The view hides only `path`.                           *)
(*  - Contract_paths.cfg: VIEW st; prints, for every distinct reachable    *)
(*    store state, the shortest call sequence that reaches it (BFS).  The  *)
(*    harness replays these paths into the real FileHashStore and then     *)
(*    issues EVERY call of the alphabet from there (spec -> code).         *)
(***************************************************************************)
EXTENDS HashStoreAPI, HSProps, Converge, Json

VARIABLES st,     \* abstract store state
          g,      \* ghost after the last call
          last,   \* [pre, call, res, g] of the last call (g = ghost before)
          path    \* calls from the empty store (history variable)

vars == <<st, g, last, path>>

NoCall == Call("init", "-", "-", "-", "-", "-")

Init == /\ st = EmptyStore
        /\ g = GhostInit
        /\ last = [pre |-> EmptyStore, call |-> NoCall, res |-> ROk, g |-> GhostInit]
        /\ path = <<>>

Next == \E call \in Calls :
          /\ Enabled(st, call)
          /\ LET a == Apply(st, call) IN
               /\ st' = a.st
               /\ g' = GhostNext(g, call, a.res)
               /\ last' = [pre |-> st, call |-> call, res |-> a.res, g |-> g]
          /\ path' = Append(path, call)

Spec == Init /\ [][Next]_vars

ViewInv   == <<st, g, last>>
ViewPaths == st

J(Cl(_, _, _, _, _, _)) == Cl(last.pre, last.call, last.res, st, last.g, g)

TypeOK            == WellFormed(st)
I_C01_Accepted    == J(C01_Accepted)
I_C01_Result      == J(C01_Result)
I_C01_RoundTrip   == J(C01_RoundTrip)
I_C03_Rebind      == J(C03_RebindRejected)
I_C03_OnlyDelete  == J(C03_OnlyDeleteUnbinds)
I_C04_Kept        == J(C04_ReferencedKept)
I_C04_LastDelete  == J(C04_LastDeleteRemoves)
I_C05_RefsExact   == J(C05_RefsExact)
I_C05_NoResidue   == J(C05_NoResidue)
I_C05_DeleteCleans == J(C05_DeleteAlwaysCleans)
I_C06_Valid       == J(C06_ValidNeverRejects)
I_C06_Invalid     == J(C06_InvalidRejects)
I_C11_DocsExact   == J(C11_DocsExact)
I_C11_Retrieve    == J(C11_Retrieve)
I_C11_Isolation   == J(C11_Isolation)
I_C17_Rejected    == C17_Rejected(last.pre, last.call, last.res, st, last.g, g,
                                  BadClass(last.call.val))
I_C17_ReadOnly    == J(C17_ReadOnly)
I_C18_Bystander   == J(C18_Bystander)

I_C19_Converge ==
  \A p \in Pid, c \in Content, v \in StoreVal :
     Converge(st, p, c, v, ProcOne(st, p, c, v), ProcTwo(st, p, c, v))

\* Non-vacuity witnesses: each must be VIOLATED (reachable) - checked by the
\* harness with a separate cfg; a witness that holds means the antecedent of
\* the corresponding clause is never exercised in this alphabet.
W_Rebind       == ~(last.call.op \in {"store","tag"} /\ last.g.bound[last.call.pid] # None)
W_SharedDelete == ~(last.call.op = "delete" /\ last.res.cls = "ok"
                    /\ OthersBound(last.g, last.call.pid, last.g.bound[last.call.pid]))
W_LastDelete   == ~(last.call.op = "delete" /\ last.res.cls = "ok"
                    /\ last.g.bound[last.call.pid] # None
                    /\ ~OthersBound(last.g, last.call.pid, last.g.bound[last.call.pid]))
W_ObjMissing   == ~(\E p \in Pid : Classify(st, p) = "objmissing")
W_Orphan       == ~(\E p \in Pid : Classify(st, p) \in {"orphan", "notinlist"})
W_DiiRemoves   == ~(last.call.op = "dii" /\ last.pre.obj[last.call.c] = "ok"
                    /\ st.obj[last.call.c] = "absent")
W_DiiKeeps     == ~(last.call.op = "dii" /\ BadVal(last.call) /\ st.obj[last.call.c] = "ok")

\* One line per distinct store state: the BFS path that reaches it.
DumpPath == PrintT("PATH " \o ToJson(path))
DumpCalls == PrintT("CALLS " \o ToJson(Calls))
DumpCallsAtInit == path # <<>> \/ DumpCalls

\* tlc -simulate: print each random behaviour once it is SimDepth calls long
SimDepth == 150
DumpLongPath == Len(path) < SimDepth \/ PrintT("PATH " \o ToJson(path))
=============================================================================
