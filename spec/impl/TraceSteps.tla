------------------------------ MODULE TraceSteps ------------------------------
(***************************************************************************)
(* code -> spec at STEP level: is every recorded execution of the real     *)
(* FileHashStore a behaviour of the implementation-shaped model?           *)
(*                                                                         *)
(* $SCEN_FILE holds one scenario (start state, one call per thread) and a  *)
(* list of runs recorded under the harness's scheduler; a run is the       *)
(* sequence of events in execution order                                   *)
(*    [t, op, a, b, out, val]   (thread, operation, path class(es),        *)
(*                               outcome, value read)                      *)
(* plus the result class of every call.  Each event must be matched by a   *)
(* model step of that thread emitting exactly that event; model steps that *)
(* emit nothing (returns, dispatch) are silent.  A run is ACCEPTED when    *)
(* all its events were consumed, every thread finished and the results     *)
(* agree.  Unlogged local variables are chosen by the model's own actions. *)
(***************************************************************************)
EXTENDS FileHashStore, Json, IOUtils, TLCExt

Scen       == JsonDeserialize(IOEnv.SCEN_FILE)
ScenJob    == Scen.job
ScenStart  == Scen.start
ScenThread == DOMAIN Scen.job
Runs       == Scen.runs

VARIABLES r, l
tvars == <<vars, r, l>>

TInit == Init /\ r \in 1..Len(Runs) /\ l = 1 /\ TLCSet(r, 0)

Match(e) == /\ ev'.t = e.t /\ ev'.op = e.op /\ ev'.a = e.a /\ ev'.b = e.b
            /\ ev'.out = e.out /\ ev'.val = e.val

TNext ==
  \/ /\ Next /\ ev'.n = ev.n /\ UNCHANGED <<r, l>>                       \* silent model step
  \/ /\ l <= Len(Runs[r].events)
     /\ Next /\ ev'.n = ev.n + 1 /\ Match(Runs[r].events[l])
     /\ l' = l + 1 /\ UNCHANGED r

TSpec == TInit /\ [][TNext]_tvars

Accepted == /\ l = Len(Runs[r].events) + 1
            /\ AllDone
            /\ \A th \in Thread : result[th] = Runs[r].results[th] /\ rdata[th] = Runs[r].data[th]

\* progress registers: the furthest event matched per run (workers = 1)
Note == /\ ((TLCGet(r) >= 0 /\ TLCGet(r) < l) => TLCSet(r, l))
        /\ (Accepted => TLCSet(r, 0 - 1))
NoteInit == TLCSet(r, 0)
Report == \A k \in 1..Len(Runs) :
            PrintT("RUN " \o ToString(k) \o " " \o ToString(TLCGet(k)) \o " OF " \o ToString(Len(Runs[k].events)))
=============================================================================
