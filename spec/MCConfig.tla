------------------------------- MODULE MCConfig -------------------------------
(* TLC explores all (creation configuration, reopening attempt) pairs: two-step behaviours
   create ; reopen.  Properties of the decision table itself are checked here; the pairs
   TLC visits are what the harness replays (thorough: all of them; quick: the neighbours). *)
EXTENDS Config, TLC
VARIABLES made, attempt, phase
vars == <<made, attempt, phase>>
NoAttempt == [depth |-> [v |-> 1, enc |-> "int"], width |-> [v |-> 1, enc |-> "int"],
              algo |-> "MD5", ns |-> CHOOSE n \in Namespaces : TRUE, defect |-> "ok"]
Init == made \in Made /\ attempt = NoAttempt /\ phase = "created"
Next == phase = "created" /\ phase' = "reopened" /\ attempt' \in Supplied /\ UNCHANGED made
Spec == Init /\ [][Next]_vars
\* the decision is reflexive on the creating configuration (both encodings), and any
\* single differing key refuses
Reflexive == phase = "reopened" =>
  ((attempt.defect = "ok" /\ attempt.depth.v = made.depth /\ attempt.width.v = made.width
    /\ attempt.algo = made.algo /\ attempt.ns = made.ns) => OpenOK("created", made, attempt))
Pinned == phase = "reopened" =>
  (OpenOK("created", made, attempt) =>
     (attempt.depth.v = made.depth /\ attempt.width.v = made.width
      /\ attempt.algo = made.algo /\ attempt.ns = made.ns))
=============================================================================
