#!/bin/sh
# run every claimed check (tier from $1, default quick) and summarise; writes evidence/*.json
# exit status: 0 if every check exited 0, 1 otherwise
cd "$(dirname "$0")"
T=${1:-quick}
bad=0
for c in $(python3 -c "import json;print(' '.join(x['property_id'] for x in json.load(open('MANIFEST.json'))['checks']))"); do
  s=$(date +%s)
  out=$(./check $c --tier $T 2>&1); rc=$?
  e=$(date +%s)
  echo "$c rc=$rc $((e-s))s $(echo "$out" | grep -cE '^VIOLATION') violations; $(echo "$out" | grep -E '^KNOWN' | cut -c1-60 | tr '\n' ';')"
  if [ $rc -ne 0 ]; then
    bad=1
    echo "$out" | grep -E "^(VIOLATION|MACHINERY|INCOMPLETE)" | head -5 | cut -c1-300
    echo "$out" | grep -A12 "^Traceback" | head -40
  fi
done
exit $bad
