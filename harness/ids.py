"""Instantiation of the specification's abstract names by concrete values.

The TLA+ specification talks about pids "p1", contents "a", formats "fD", document
versions "v1", extra cids "x".  An Inst maps them to the concrete strings / bytes the
real FileHashStore is driven with, and back (through hashlib) when a store directory is
abstracted.  The default instantiation is deliberately adversarial in the ways the
properties name: pids that are prefixes of one another, (pid, format) pairs whose
concatenations coincide, contents around the read-buffer size.
"""
import hashlib
import os

ALGO_HASHLIB = {"MD5": "md5", "SHA-1": "sha1", "SHA-256": "sha256",
                "SHA-384": "sha384", "SHA-512": "sha512"}
DEFAULT5 = ["md5", "sha1", "sha256", "sha384", "sha512"]
OTHER7 = ["sha224", "sha3_224", "sha3_256", "sha3_384", "sha3_512", "blake2b", "blake2s"]
DEFAULT_NS = "https://ns.dataone.org/service/types/v2.0#SystemMetadata"


_SEPS = [b"\n", b"\r\n", b"\r", b"\xff\x00\n", b"\xc3\x28", b"\x1a", b"\xe2\x82\xac\n"]


def _blob(tag: bytes, n: int) -> bytes:
    """Deterministic content that is hostile to text-mode handling: CRLF and lone CR (newline
    translation), bytes that are not valid UTF-8, NUL, Ctrl-Z, a multi-byte character."""
    out = bytearray()
    i = 0
    while len(out) < n:
        out += tag + str(i).encode() + _SEPS[i % len(_SEPS)]
        i += 1
    return bytes(out[:n])


class Inst:
    """Concrete values for the abstract names of one TLC configuration."""

    def __init__(self, pids, contents, extras=(), fmts=("fD",), vers=("v1",),
                 algo="SHA-256", depth=3, width=2, pid_strings=None, fmt_strings=None,
                 content_bytes=None, ver_bytes=None, ns=DEFAULT_NS):
        self.algo = algo
        self.h = ALGO_HASHLIB[algo]
        self.depth, self.width, self.ns = depth, width, ns
        base = "doi:10.18739/A2901ZH2M"
        default_pids = {"p1": base, "p2": base + ".1", "p3": "x" + base, "p4": base.lower()}
        self.pid = dict(pid_strings or {p: default_pids[p] for p in pids})
        # formats: fD is the store namespace; f2/f3 are chosen so that
        #   pid(p1) + f2 == pid(p2) + f3   whenever p2 = p1 + suffix
        default_fmts = {"fD": ns, "f3": "ns3", "f2": ".1ns3", "f4": "http://ns.example/4"}
        if "f3" not in fmts:
            # two-format alphabets: pid(p1) + f2 == pid(p2) + fD (p2 = p1 + ".1")
            default_fmts["f2"] = ".1" + ns
        self.fmt = dict(fmt_strings or {f: default_fmts[f] for f in fmts})
        default_contents = {"a": _blob(b"alpha", 37), "b": _blob(b"bravo", 8192 + 17),
                            "c": b""}
        self.content = dict(content_bytes or {c: default_contents[c] for c in contents})
        default_vers = {"v1": b"<sysmeta v='1'/>\r\n\xff", "v2": _blob(b"<m2/>", 20000), "v3": b""}
        self.ver = dict(ver_bytes or {v: default_vers[v] for v in vers})
        self.cid = {c: hashlib.new(self.h, b).hexdigest() for c, b in self.content.items()}
        for k, x in enumerate(extras):
            # (upper-case hex: a cid is the string the caller gives, whatever its spelling)
            self.cid[x] = hashlib.new(self.h, b"never-stored-%d" % k).hexdigest().upper()
        self.extras = list(extras)
        # reverse tables
        self.cid_rev = {v: k for k, v in self.cid.items()}
        self.pidhash_rev = {self.hash(s): p for p, s in self.pid.items()}
        self.pidstr_rev = {s: p for p, s in self.pid.items()}
        self.doc_rev = {}
        for p, ps in self.pid.items():
            for f, fs in self.fmt.items():
                self.doc_rev[(self.hash(ps), self.hash(ps + fs))] = (p, f)
        self.ver_rev = {hashlib.sha256(b).hexdigest(): v for v, b in self.ver.items()}
        self.content_rev = {hashlib.sha256(b).hexdigest(): c for c, b in self.content.items()}

    def hash(self, s: str) -> str:
        return hashlib.new(self.h, s.encode("utf-8")).hexdigest()

    def digest(self, c: str, algo: str) -> str:
        return hashlib.new(algo, self.content[c]).hexdigest()

    def props(self, root: str) -> dict:
        return {"store_path": root, "store_depth": self.depth, "store_width": self.width,
                "store_algorithm": self.algo, "store_metadata_namespace": self.ns}

    def constants(self) -> dict:
        return {"Pid": sorted(self.pid), "Content": sorted(self.content),
                "ExtraCid": sorted(self.extras), "Fmt": sorted(self.fmt),
                "Ver": sorted(self.ver)}

    def describe(self) -> dict:
        return {"algo": self.algo, "depth": self.depth, "width": self.width,
                "pid": self.pid, "fmt": self.fmt,
                "content_sizes": {c: len(b) for c, b in self.content.items()},
                "ver_sizes": {v: len(b) for v, b in self.ver.items()}}


def write_inputs(inst: Inst, directory: str) -> dict:
    """Write every content / document version to a file (data arguments are paths)."""
    os.makedirs(directory, exist_ok=True)
    out = {}
    for c, b in inst.content.items():
        p = os.path.join(directory, "content_" + c)
        with open(p, "wb") as f:
            f.write(b)
        out[("c", c)] = p
    for v, b in inst.ver.items():
        p = os.path.join(directory, "ver_" + v)
        with open(p, "wb") as f:
            f.write(b)
        out[("v", v)] = p
    return out
