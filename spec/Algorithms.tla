------------------------------ MODULE Algorithms ------------------------------
(***************************************************************************)
(* Hash-algorithm names, their accepted spellings, the digest-key set of a *)
(* store_object call and the validation verdict (C02, C06).                *)
(* Names are sequences of one-character strings so that TLC can compute on *)
(* them; this module is an independent transcription of the documented     *)
(* spelling rule (lower-case; names with more than three digits keep one   *)
(* separator spelled '_', all others drop '-' and '_').                    *)
(***************************************************************************)
EXTENDS Naturals, Sequences, FiniteSets

Digits == {"0", "1", "2", "3", "4", "5", "6", "7", "8", "9"}
UpperOf == [c \in {"a","b","c","d","e","f","g","h","i","j","k","l","m","n","o","p","q","r",
                    "s","t","u","v","w","x","y","z"} |->
             CASE c = "a" -> "A" [] c = "b" -> "B" [] c = "c" -> "C" [] c = "d" -> "D"
               [] c = "e" -> "E" [] c = "f" -> "F" [] c = "g" -> "G" [] c = "h" -> "H"
               [] c = "i" -> "I" [] c = "j" -> "J" [] c = "k" -> "K" [] c = "l" -> "L"
               [] c = "m" -> "M" [] c = "n" -> "N" [] c = "o" -> "O" [] c = "p" -> "P"
               [] c = "q" -> "Q" [] c = "r" -> "R" [] c = "s" -> "S" [] c = "t" -> "T"
               [] c = "u" -> "U" [] c = "v" -> "V" [] c = "w" -> "W" [] c = "x" -> "X"
               [] c = "y" -> "Y" [] c = "z" -> "Z"]
LowerLetters == DOMAIN UpperOf
Up(c)  == IF c \in LowerLetters THEN UpperOf[c] ELSE c
Low(c) == IF \E l \in LowerLetters : UpperOf[l] = c
            THEN CHOOSE l \in LowerLetters : UpperOf[l] = c ELSE c

MD5      == <<"m","d","5">>
SHA1     == <<"s","h","a","1">>
SHA256   == <<"s","h","a","2","5","6">>
SHA384   == <<"s","h","a","3","8","4">>
SHA512   == <<"s","h","a","5","1","2">>
SHA224   == <<"s","h","a","2","2","4">>
SHA3_224 == <<"s","h","a","3","_","2","2","4">>
SHA3_256 == <<"s","h","a","3","_","2","5","6">>
SHA3_384 == <<"s","h","a","3","_","3","8","4">>
SHA3_512 == <<"s","h","a","3","_","5","1","2">>
BLAKE2B  == <<"b","l","a","k","e","2","b">>
BLAKE2S  == <<"b","l","a","k","e","2","s">>

Default5  == {MD5, SHA1, SHA256, SHA384, SHA512}
Other7    == {SHA224, SHA3_224, SHA3_256, SHA3_384, SHA3_512, BLAKE2B, BLAKE2S}
Supported == Default5 \cup Other7

NDigits(s) == Cardinality({i \in 1..Len(s) : s[i] \in Digits})

\* the canonical (hashlib) name of a spelling
Clean(s) ==
  LET low == [i \in 1..Len(s) |-> Low(s[i])] IN
  IF NDigits(s) > 3
    THEN [i \in 1..Len(s) |-> IF low[i] = "-" THEN "_" ELSE low[i]]
    ELSE SelectSeq(low, LAMBDA c : c \notin {"-", "_"})

Accepted(s) == Clean(s) \in Supported

\* spellings of a canonical name: case x separator at the conventional position
FirstDigit(a) == CHOOSE i \in 1..Len(a) : a[i] \in Digits /\ \A j \in 1..(i - 1) : a[j] \notin Digits
WithSep(a, sep) ==
  IF NDigits(a) > 3
    THEN [i \in 1..Len(a) |-> IF a[i] = "_" THEN sep ELSE a[i]]         \* sha3_256 / sha3-256
    ELSE IF sep = "" THEN a
         ELSE SubSeq(a, 1, FirstDigit(a) - 1) \o <<sep>> \o SubSeq(a, FirstDigit(a), Len(a))
Cased(s, cs) == [i \in 1..Len(s) |-> IF cs = "upper" THEN Up(s[i])
                                      ELSE IF cs = "capital" /\ i = 1 THEN Up(s[i]) ELSE s[i]]
Spellings(a) ==
  {Cased(WithSep(a, sep), cs) :
     sep \in (IF NDigits(a) > 3 THEN {"_", "-"} ELSE {"", "-", "_"}),
     cs \in {"lower", "upper", "capital"}}
AllSpellings == UNION {Spellings(a) : a \in Supported}

\* names that must be refused
Unsupported == {<<"c","r","c","3","2">>, <<"s","m","3">>, <<"s","h","a","3","2","5","6">>,
                <<"s","h","a","-","3","-","2","5","6","-","x">>, <<"m","d","4">>}

\* digest keys of one store_object call: a function of THAT CALL only
None == <<>>
Keys(add, sum) ==
  Default5 \cup (IF add = None THEN {} ELSE {Clean(add)})
           \cup (IF sum = None THEN {} ELSE {Clean(sum)})

\* the verdict, exactly as the property states it
VerdictValid(sumcase, sizecase) ==
  /\ sumcase \in {"lower", "upper", "mixed", "absent"}
  /\ sizecase \in {"correct", "absent"}
=============================================================================
