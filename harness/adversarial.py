"""Adversarial injective instantiations of the specification's pids and formats (C18).
No whitespace anywhere (the API rejects it); everything else goes."""
import random

BASES = [
    "doi:10.18739/A2901ZH2M", "urn:uuid:1b35d0a5-b17a-423b-a2ed-de2b18dc367a", "jtao.1700.1",
    "../../outside", "../x", "/abs/olute/path", ".", "..", "...", "-rf", "--help", ".hidden",
    "a*b?[c]", "$(touch${IFS}x)", "`id`", "a;b|c&d", "%2e%2e%2f", "%00", "a\\b", "con", "nul",
    "~root", "{a,b}", "#frag?query=1&x=2", "'quoted\"", "pid\x01ctl", "pid\x7fdel",
    "é", "é", "‮RTL", "\U0001f600\U0001f601", "中文" * 3,
    "STRASSE", "straße", "ﬁ", "x" * 255, "y" * 256, "z" * 1024,
    "中" * 400, "é" * 600, "a/b/c/d/e/f/g/h", "objects/tmp/x", "refs/pids/x",
    "metadata", "hashstore.yaml", "x_delete", "tmp",
]


def variants(rnd, base):
    """A triple of distinct, related identifiers built from `base`."""
    kind = rnd.choice(["suffix", "prefix", "case", "double", "mixed", "compose"])
    if kind == "compose":
        # canonically equivalent spellings are DIFFERENT identifiers (composed / decomposed /
        # compatibility forms): e-acute, angstrom sign vs A-ring, a Hangul syllable vs its jamo
        import unicodedata
        w = base + rnd.choice(["caf\u00e9", "\u00c5ngstr\u00f6m", "\ud55c\uae00"])
        out = [unicodedata.normalize("NFC", w), unicodedata.normalize("NFD", w),
               base + rnd.choice(["\u212bngstr\u00f6m", "\ufb01", "\u2126"])]
        return out
    if kind == "suffix":
        return [base, base + rnd.choice([".1", "/v2", "x", "_delete", "́"]), base + base[-1:] * 2]
    if kind == "prefix":
        return [base, rnd.choice(["x", "/", ".", "-", "中"]) + base, base[1:] or base + "q"]
    if kind == "case":
        up, lo = base.upper(), base.lower()
        out = [base, up if up != base else base + "A", lo if lo not in (base, up) else base + "a"]
        return out
    if kind == "double":
        return [base, base + base, base + "/" + base]
    return [base, base[::-1] if base[::-1] != base else base + "r", base + "\U0001f600"]


def file_pids(seed, scratch):
    """Pids that are the absolute paths of EXISTING files, two of them with identical content
    (an implementation that looks a pid up as a file instead of hashing its text aliases them)."""
    import os
    d = os.path.join(scratch, "pidfiles%d" % seed)
    os.makedirs(d, exist_ok=True)
    names = {"p1": "survey-2024.csv", "p2": "copy-of-survey.csv", "p3": "other.csv"}
    out = {}
    for p, n in names.items():
        path = os.path.join(d, n)
        with open(path, "wb") as f:
            f.write(b"same bytes\n" if p != "p3" else b"different bytes\n")
        out[p] = path
    return out


def instantiation(seed, scratch=None):
    rnd = random.Random(seed)
    if scratch is not None and seed % 6 == 5:
        ns = "https://ns.dataone.org/service/types/v2.0#SystemMetadata"
        return file_pids(seed, scratch), {"fD": ns, "f2": "fmt/two", "f3": "fmt/three"}
    while True:
        base = rnd.choice(BASES)
        if rnd.random() < 0.3:
            base = base + rnd.choice(BASES)
        if rnd.random() < 0.15:
            base = base * rnd.randint(2, 8)
        pids = variants(rnd, base)
        # formats: pid(p1)+f2 == pid(p2)+f3 whenever p2 = p1 + suffix (concatenations coincide)
        ns = "https://ns.dataone.org/service/types/v2.0#SystemMetadata"
        f3 = rnd.choice(["ns3", "f", "中", "http://x/y#z", ns + "x"])
        if pids[1].startswith(pids[0]) and len(pids[1]) > len(pids[0]):
            f2 = pids[1][len(pids[0]):] + f3
        else:
            f2 = rnd.choice(BASES) + f3
        fmts = {"fD": ns, "f2": f2, "f3": f3}
        vals = pids + list(fmts.values())
        if len(set(pids)) == 3 and len(set(fmts.values())) == 3 and \
                not any(ch.isspace() for v in vals for ch in v) and all(vals) and \
                all(len(v.encode("utf-8", "surrogatepass")) < 9000 for v in vals):
            try:
                for v in vals:
                    v.encode("utf-8")
            except UnicodeEncodeError:
                continue
            return {"p1": pids[0], "p2": pids[1], "p3": pids[2]}, fmts
