------------------------------ MODULE TraceProps ------------------------------
(***************************************************************************)
(* code -> spec.  Judges behaviour OBSERVED from the real FileHashStore.   *)
(*                                                                         *)
(* The harness writes a forest of observed steps (TRACE_FILE, JSON array): *)
(*   record n = [call, res, same, post, c0, c1]   children are records c0..c1    *)
(* Record 1 is the root (the freshly created, empty store).  The state is  *)
(* TAKEN FROM the log (post), the ghost is advanced by HSProps!GhostNext   *)
(* from (call, res) only, and TLC                                          *)
(*   (a) evaluates every clause of HSProps on every observed step          *)
(*       -> one line  "VIOL <clause> <n>"  per false clause, and           *)
(*   (b) compares the step with the contract: Apply(pre, call) = (res,post)*)
(*       -> one line  "DRIFT <n>"  when the code left the model.           *)
(* Nothing is decided in Python.  Clauses log instead of stopping TLC so   *)
(* that one run judges the whole forest.                                   *)
(***************************************************************************)
EXTENDS HashStoreAPI, HSProps, Json, IOUtils, TLCExt

Obs == JsonDeserialize(IOEnv.TRACE_FILE)
N     == Len(Obs)

VARIABLES i,    \* record being judged
          pre,  \* observed store state before the step
          st,   \* observed store state after the step
          gp,   \* ghost before the step
          g     \* ghost after the step

vars == <<i, pre, st, gp, g>>

Init == i = 1 /\ pre = Obs[1].post /\ st = Obs[1].post /\ gp = GhostInit /\ g = GhostInit

\* a record whose step left the abstract state unchanged carries same = TRUE
\* instead of a copy of the state
Next == \E j \in Obs[i].c0 .. Obs[i].c1 :
          /\ i' = j
          /\ pre' = st
          /\ st' = IF Obs[j].same THEN st ELSE Obs[j].post
          /\ gp' = g
          /\ g' = GhostNext(g, Obs[j].call, Obs[j].res)

Spec == Init /\ [][Next]_vars

Pre  == pre
Post == st
TheCall == Obs[i].call
TheRes  == Obs[i].res

Log(tag, name) == PrintT(tag \o " " \o name \o " " \o ToString(i))
Judge(name, ok) == i = 1 \/ ok \/ Log("VIOL", name)
J(name, Cl(_, _, _, _, _, _)) == Judge(name, Cl(Pre, TheCall, TheRes, Post, gp, g))

I_C01_Accepted     == J("C01_Accepted", C01_Accepted)
I_C01_Result       == J("C01_Result", C01_Result)
I_C01_RoundTrip    == J("C01_RoundTrip", C01_RoundTrip)
I_C01_CallerStream == J("C01_CallerStream", C01_CallerStream)
I_C03_Rebind       == J("C03_RebindRejected", C03_RebindRejected)
I_C03_OnlyDelete   == J("C03_OnlyDeleteUnbinds", C03_OnlyDeleteUnbinds)
I_C04_Kept         == J("C04_ReferencedKept", C04_ReferencedKept)
I_C04_LastDelete   == J("C04_LastDeleteRemoves", C04_LastDeleteRemoves)
I_C05_RefsExact    == J("C05_RefsExact", C05_RefsExact)
I_C05_NoResidue    == J("C05_NoResidue", C05_NoResidue)
I_C05_DeleteCleans == J("C05_DeleteAlwaysCleans", C05_DeleteAlwaysCleans)
I_C06_Valid        == J("C06_ValidNeverRejects", C06_ValidNeverRejects)
I_C06_Invalid      == J("C06_InvalidRejects", C06_InvalidRejects)
I_C11_DocsExact    == J("C11_DocsExact", C11_DocsExact)
I_C11_Retrieve     == J("C11_Retrieve", C11_Retrieve)
I_C11_Isolation    == J("C11_Isolation", C11_Isolation)
I_C17_Rejected     == Judge("C17_Rejected",
                        C17_Rejected(Pre, TheCall, TheRes, Post, gp, g,
                           IF TheCall.op = "bad" THEN BadClass(TheCall.val) ELSE {}))
I_C17_ReadOnly     == J("C17_ReadOnly", C17_ReadOnly)

I_C18_Bystander    == J("C18_Bystander", C18_Bystander)
I_C18_Contained    == J("C18_Contained", C18_Contained)

\* conformance with the contract (drift, never an alarm by itself)
Conforms ==
  /\ WellFormed(Pre)
  /\ IF TheCall.op = "bad"
       THEN TheRes.cls \in BadClass(TheCall.val) /\ Post = Pre
       ELSE LET a == Apply(Pre, TheCall) IN
            /\ a.st = Post
            /\ a.res.cls = TheRes.cls /\ a.res.cid = TheRes.cid
            /\ a.res.data = TheRes.data /\ TheRes.truth
I_Conforms == i = 1 \/ Conforms \/ Log("DRIFT", "Apply")

\* every record was reached and judged
AllJudged == PrintT("JUDGED " \o ToString(TLCGet("stats").distinct) \o " OF " \o ToString(N))
=============================================================================
