----------------------------- MODULE TraceClient -----------------------------
(* code -> spec for C20: for every case of Client!Cases the harness ran the client on one
   copy of a real store and Client!ApiOf(case) on another copy.
   record : [case, required, cli : [raised, tree, payload], api : [raised, tree, payload],
             propsSame] *)
EXTENDS TLC, Json, IOUtils, TLCExt, Sequences, Naturals
Obs == JsonDeserialize(IOEnv.TRACE_FILE)
N   == Len(Obs.records)
VARIABLE k
Init == k = 0
Next == k = 0 /\ k' \in 1..N
Spec == Init /\ [][Next]_k
R == Obs.records[k]
Log(name) == PrintT("VIOL " \o name \o " " \o ToString(k))
Judge(name, ok) == k = 0 \/ ok \/ Log(name)
\* same effect on the store (byte-for-byte tree) and same refusal
I_C20_SameEffect == Judge("C20_SameEffect",
   R.kind = "verb" =>
     IF ~R.required THEN R.cli.raised /\ R.cli.tree = R.before
     ELSE R.cli.raised = R.api.raised /\ R.cli.tree = R.api.tree)
\* same cid / digests / path / content reported
I_C20_SamePayload == Judge("C20_SamePayload",
   (R.kind = "verb" /\ R.required /\ ~R.cli.raised /\ ~R.api.raised) => R.cli.payload = R.api.payload)
\* a store created by the client opens through the API with the same properties, and back
I_C20_SameProps == Judge("C20_SameProps", R.kind = "props" => R.ok)
\* -chs on a directory that already holds a store: accepted / refused exactly like the
\* constructor, and a refusal touches nothing
I_C20_CreateSameEffect == Judge("C20_CreateSameEffect",
   R.kind = "chs" => /\ R.cli.raised = R.api.raised /\ R.cli.tree = R.api.tree
                     /\ (R.api.raised => R.cli.tree = R.before))
AllJudged == PrintT("JUDGED " \o ToString(TLCGet("stats").distinct - 1) \o " OF " \o ToString(N))
=============================================================================
