"""Exhaustive (2 threads) / preemption-bounded (3 threads) exploration of the REAL code's
interleavings under the cooperative scheduler and the OS-level interposer.

Scheduling points: every operation on a shared path class (permanent files and their
*_delete markers) and every operation on the store's locks / conditions.  Operations on a
thread's own staged tmp file and runs of directory stat/mkdir do not yield (they commute
with everything another thread does to shared state) but are still logged.

Search: stateful DFS with replay.  State key = (every thread's own history of operations
WITH their results, content digest of the whole tree, the four lock lists, waiters,
lock holders).  A thread's future depends only on what it has done and seen, so two
schedules that meet in the same key have the same futures; each key is expanded once.
"""
import hashlib
import os
import shutil
import tempfile

from . import absfn, interpose, sched, tokens
from .driver import Driver, load_hashstore
from .ids import Inst, write_inputs


class _DetNames:
    """Deterministic tmp-file names: <tid>x<k> for managed threads."""

    def __init__(self, fallback):
        self.fallback = fallback

    def __iter__(self):
        return self

    def __next__(self):
        t = sched.current()
        if t is None:
            return next(self.fallback)
        t.tmpcount = getattr(t, "tmpcount", 0) + 1
        return "%sx%d" % (t.tid, t.tmpcount)


_yaml_cache = {}


def install_yaml_cache():
    """yaml.safe_load of the (comment-heavy) hashstore.yaml costs ~3 ms in pure Python and
    the store constructor does it twice; memoise it by content (a pure function)."""
    import copy
    import yaml
    if getattr(yaml, "_hsverif_cached", False):
        return
    real_load = yaml.safe_load

    def cached(stream):
        data = stream.read() if hasattr(stream, "read") else stream
        k = data if isinstance(data, (str, bytes)) else None
        if k is None:
            return real_load(data)
        if k not in _yaml_cache:
            _yaml_cache[k] = real_load(data)
        return copy.deepcopy(_yaml_cache[k])
    yaml.safe_load = cached
    yaml._hsverif_cached = True


_orig_candidates = tempfile._get_candidate_names


def install_det_names():
    real_seq = _orig_candidates()
    det = _DetNames(real_seq)
    tempfile._get_candidate_names = lambda: det


def tree_digest(root):
    h = hashlib.sha1()
    root = str(root)
    realstat = interpose.real("os.lstat") if interpose._REAL else os.lstat
    for dirpath, dirnames, filenames in os.walk(root):
        dirnames.sort()
        rel = os.path.relpath(dirpath, root)
        h.update(b"D" + rel.encode() + b"\0")
        for fn in sorted(filenames):
            full = os.path.join(dirpath, fn)
            try:
                with open(full, "rb") as f:
                    data = f.read()
            except OSError:
                data = b"?"
            h.update(b"F" + fn.encode() + b"\0" + hashlib.sha1(data).digest())
    return h.hexdigest()


MUTATING = {"rename", "replace", "remove", "unlink", "mkdir", "rmdir", "create", "open:w",
            "open:a", "open:rw", "f.write", "f.truncate", "truncate", "link", "symlink",
            "chmod"}


class Scenario:
    def __init__(self, name, inst_kw, setup, threads, mode="th"):
        self.name, self.inst_kw, self.setup, self.threads, self.mode = \
            name, inst_kw, setup, threads, mode

    def describe(self):
        return {"name": self.name, "setup": self.setup, "threads": self.threads,
                "mode": self.mode}


class Explorer:
    def __init__(self, scenario, base, fhs=None, max_runs=20000, preemption_bound=None):
        self.sc = scenario
        self.fhs = fhs or load_hashstore()[0]
        self.inst = Inst(**scenario.inst_kw)
        self.base = base
        os.makedirs(base, exist_ok=True)
        self.inputs = write_inputs(self.inst, os.path.join(base, "inputs"))
        self.template = os.path.join(base, "template")
        self.root = os.path.join(base, "store")
        self.max_runs = max_runs
        self.pbound = preemption_bound
        self._prepare_template()
        self.visited = set()
        self.outcomes = {}        # key -> {"outcome":..., "count":n, "schedule":[...]}
        self.absstates = {}       # json(abs) -> witness schedule
        self.runs = 0
        self.steps = 0
        self.exhaustive = True
        self.nondeterminism = []
        self.footprint = {}       # tid -> set of shared objects it has ever touched
        self.fp_grew = False
        self.abs_cache = {}       # tree digest -> abs json key
        self.use_ample = True
        self.list_seen = False    # a claimed-identifier list was accessed outside any lock
        self.shared_tmp = set()   # tmp paths that more than one thread was seen to use
        self.shared = None        # shared visited table (parallel exploration of ONE scenario)
        self.wid, self._tok, self.n_visited = 0, 0, 0
        install_det_names()
        install_yaml_cache()

    def _prepare_template(self):
        shutil.rmtree(self.template, ignore_errors=True)
        os.makedirs(self.template)
        d = Driver(self.inst, self.template, self.inputs, self.fhs)
        self.setup_results = [d.call(c) for c in self.sc.setup]
        self.start_abs = absfn.abstract(self.template, self.inst)
        self.template_map = {}
        for dirpath, dirnames, filenames in os.walk(self.template):
            rel = os.path.relpath(dirpath, self.template)
            self.template_map[rel] = "D"
            for fn in filenames:
                with open(os.path.join(dirpath, fn), "rb") as f:
                    self.template_map[os.path.normpath(os.path.join(rel, fn))] = \
                        hashlib.sha1(f.read()).hexdigest()
        self.template_digest = hashlib.sha1(
            repr(sorted(self.template_map.items())).encode()).hexdigest()

    # ------------------------------------------------------------------ one run
    def _new_store(self):
        shutil.rmtree(self.root, ignore_errors=True)
        shutil.copytree(self.template, self.root)
        props = self.inst.props(self.root)
        # the template's yaml is valid for any root (store_path is not recorded)
        old = os.environ.get("USE_MULTIPROCESSING")
        if self.sc.mode == "mp":
            os.environ["USE_MULTIPROCESSING"] = "True"
        else:
            os.environ.pop("USE_MULTIPROCESSING", None)
        try:
            with sched.patched_primitives():
                store = self.fhs.FileHashStore(props)
            # the lists of claimed identifiers become observable: an access made while holding
            # no lock is a scheduling point (sched.SList)
            for name, val in list(vars(store).items()):
                if type(val) is list and "locked" in name:
                    setattr(store, name, sched.SList(val))
        finally:
            if old is None:
                os.environ.pop("USE_MULTIPROCESSING", None)
            else:
                os.environ["USE_MULTIPROCESSING"] = old
        return store

    def _lock_state(self, store):
        items = []
        for name, val in sorted(vars(store).items()):
            if isinstance(val, list) and "locked" in name:
                items.append((name, tuple(val)))
            elif isinstance(val, sched.SCond):
                items.append((name, tuple(w[0] for w in val.waiters), val.lock.holder))
        return tuple(items)

    def _lock_lists(self, store):
        out = {}
        for name, val in sorted(vars(store).items()):
            if isinstance(val, list) and "locked" in name:
                out[name] = list(val)
        return out

    def execute(self, prefix, stack=None, collect=True, followups=None, record=False):
        """Replay `prefix`, then continue with the default policy, expanding new states."""
        self.runs += 1
        store = self._new_store()
        S = sched.Scheduler()
        classify = tokens.make_classifier(self.root, self.inst)
        ctx = interpose.Context(self.root, classify)
        ctx.intercepts = lambda: sched.current() is not None
        ctx.keep_log = False
        ctx.after_paths = True
        fsmap = dict(self.template_map)
        dirty = set()
        digest = [self.template_digest]

        def objects_of(tok):
            if tok[0] == "fs":
                return {x for x in tok[2] if x[0] in tokens.SHARED} | (
                    {("flock",) + tok[2][0]} if tok[1] == "flock" else set())
            if tok[0] in ("acquire", "wakeup"):
                # once a list of claimed identifiers was seen to be accessed OUTSIDE any lock,
                # every critical section conflicts with those accesses
                return {("lock", tok[1])} | ({("claimlists",)} if self.list_seen else set())
            if tok[0] == "list":
                if not self.list_seen:
                    self.list_seen = True
                    self.fp_grew = True
                return {("claimlists",)}
            return set()

        tmp_touch = {}

        def before(op, token, n):
            if op == "f.close":
                return
            # a staged tmp file is local to its thread - unless the code makes two threads use
            # the SAME tmp path; then its operations become scheduling points as well
            if token and token[0][0] == "tmp":
                me = sched.current()
                rel = os.path.relpath(ctx.cur_paths[0], self.root)
                if me is not None and me.tid in self.sc.threads:     # not the C08 follow-up calls
                    tmp_touch.setdefault(rel, set()).add(me.tid)
                if rel in self.shared_tmp:
                    S.yield_point(("fs", op, token))
                return
            if tokens.is_shared(token):
                if op == "flock":
                    p0 = ctx.cur_paths[0]
                    me = sched.current().tid
                    S.yield_point(("fs", op, token),
                                  lambda: ctx.flocks.get(p0, me) == me)
                else:
                    S.yield_point(("fs", op, token))
        ctx.before = before

        raw = []
        sec_open = {}

        def lists_now():
            return {nm: list(v) for nm, v in vars(store).items()
                    if isinstance(v, list) and "locked" in nm}

        def on_lock(kind, tid, name):
            if kind == "acquire":
                raw.append({"t": tid, "op": "sec", "lock": name, "before": lists_now(), "out": None})
                sec_open[tid] = len(raw) - 1
            elif kind == "wakeup":
                raw.append({"t": tid, "op": "wakeup", "cond": name, "before": lists_now(), "out": None})
                sec_open[tid] = len(raw) - 1
            elif kind == "wait":
                i = sec_open.pop(tid, None)
                if i is not None:
                    raw[i]["out"] = "wait"
            elif kind == "release":
                i = sec_open.pop(tid, None)
                if i is not None and raw[i]["out"] is None:
                    b, a = raw[i]["before"], lists_now()
                    out = "peek"
                    for nm in a:
                        if len(a[nm]) > len(b.get(nm, [])):
                            out = "claim"
                        elif len(a[nm]) < len(b.get(nm, [])):
                            out = "release"
                    raw[i]["out"] = out
        if record:
            S.on_lock = on_lock

        def content_of(path, kind):
            try:
                with open(path, "rb") as f:
                    raw_bytes = f.read()
                txt = raw_bytes.decode("utf-8", "replace")
            except OSError:
                return []
            if kind == "pidref":
                return [self.inst.cid_rev.get(txt, "junk")]
            if kind == "doc":
                return [self.inst.ver_rev.get(hashlib.sha256(raw_bytes).hexdigest(), "junk")]
            if kind == "obj":
                return [self.inst.content_rev.get(hashlib.sha256(raw_bytes).hexdigest(), "junk")]
            lines = txt.split("\n")
            if lines and lines[-1] == "":
                lines = lines[:-1]
            return [self.inst.pidstr_rev.get(x, "junk") for x in lines]

        def after(op, token, n, out, paths=()):
            t = sched.current()
            if record and t is not None:
                e = {"t": t.tid, "op": op, "tok": token, "out": out}
                if op in ("open:r", "open:rw") and out == "ok" and token and \
                        token[0][0] in ("pidref", "cidref", "doc", "obj"):
                    e["val"] = content_of(paths[0], token[0][0])
                raw.append(e)
            if t is not None:
                t.hist.append((op, token, out))
                if op == "flock" and out == "ok":
                    ctx.flocks[paths[0]] = t.tid
                elif op == "f.close" and ctx.flocks.get(paths[0]) == t.tid:
                    del ctx.flocks[paths[0]]
            if op in MUTATING:
                dirty.update(paths)
        ctx.after = after

        def refresh_digest():
            if dirty:
                for p in list(dirty):
                    rel = os.path.relpath(p, self.root)
                    try:
                        st = os.lstat(p)
                    except OSError:
                        fsmap.pop(rel, None)
                        continue
                    import stat as _st
                    if _st.S_ISDIR(st.st_mode):
                        fsmap[rel] = "D"
                    else:
                        try:
                            with open(p, "rb") as f:
                                fsmap[rel] = hashlib.sha1(f.read()).hexdigest()
                        except OSError:
                            fsmap.pop(rel, None)
                dirty.clear()
                digest[0] = hashlib.sha1(repr(sorted(fsmap.items())).encode()).hexdigest()
            return digest[0]
        drv = Driver(self.inst, self.root, self.inputs, self.fhs, store=store)
        results = {}

        def key():
            d = refresh_digest()
            parts = []
            for tid, t in sorted(S.threads.items()):
                n0 = getattr(t, "hh_n", 0)
                if n0 < len(t.hist):
                    h = getattr(t, "hh", b"")
                    for ent in t.hist[n0:]:
                        h = hashlib.blake2b(h + repr(ent).encode(), digest_size=16).digest()
                    t.hh, t.hh_n = h, len(t.hist)
                parts.append((tid, getattr(t, "hh", b""), len(t.hist), t.pending, t.done))
            return (tuple(parts), d, self._lock_state(store),
                    tuple(sorted(ctx.flocks.items())))

        outcome = None
        with interpose.active(ctx):
            for tid, call in sorted(self.sc.threads.items()):
                S.spawn(tid, (lambda c=call: drv.call(c)))
            i = 0
            sched_taken = []
            last = None
            preempt = 0
            while True:
                unfinished = S.unfinished()
                if not unfinished:
                    outcome = "done"
                    break
                runnable = S.runnable()
                if not runnable:
                    outcome = "deadlock"
                    break
                if i < len(prefix):
                    choice = prefix[i]
                    if choice not in runnable:
                        self.nondeterminism.append((list(prefix), i, runnable))
                        outcome = "nondet"
                        break
                else:
                    k = key()
                    if collect:
                        if self.shared is not None:
                            hk = hashlib.blake2b(repr(k).encode(), digest_size=16).digest()
                            self._tok += 1
                            tok = (self.wid, self._tok)
                            if self.shared.setdefault(hk, tok) != tok:
                                outcome = "merged"
                                break
                            self.n_visited += 1
                        else:
                            if k in self.visited:
                                outcome = "merged"
                                break
                            self.visited.add(k)
                        self._note_abs(sched_taken, k[1])
                    default = last if last in runnable else runnable[0]
                    if i > 3000:
                        # a run this long is a busy-wait: be fair from here on (round robin);
                        # if even that does not end it, no call returns - reported as deadlock
                        default = runnable[(runnable.index(last) + 1) % len(runnable)] \
                            if last in runnable else runnable[0]
                    if i > 30000:
                        outcome = "deadlock"
                        self.exhaustive = False
                        break
                    choice = default
                    ample = None
                    if self.use_ample and len(runnable) > 1:
                        for cand in ([default] + [r for r in runnable if r != default]):
                            objs = objects_of(S.threads[cand].pending)
                            if not objs:
                                continue
                            others = set()
                            for u in unfinished:
                                if u != cand:
                                    others |= self.footprint.get(u, set())
                            if not (objs & others):
                                ample = cand
                                break
                    if ample is not None:
                        choice = ample
                    elif collect and stack is not None and i <= 3000:
                        for alt in runnable:
                            if alt == choice:
                                continue
                            p2 = preempt + (1 if last in runnable and alt != last else 0)
                            if self.pbound is not None and p2 > self.pbound:
                                self.exhaustive = False
                                continue
                            stack.append(tuple(sched_taken) + (alt,))
                if last is not None and last in runnable and choice != last:
                    preempt += 1
                objs = objects_of(S.threads[choice].pending)
                fp = self.footprint.setdefault(choice, set())
                if not objs <= fp:
                    fp |= objs
                    self.fp_grew = True
                S.step(choice)
                self.steps += 1
                sched_taken.append(choice)
                last = choice
                i += 1
            if outcome == "done" and followups:
                fres = []
                for k2, call in enumerate(followups):
                    tid = "f%d" % k2
                    S.spawn(tid, (lambda c=call: drv.call(c)))
                    guard = 0
                    while tid in S.unfinished() and tid in S.runnable() and guard < 5000:
                        S.step(tid)
                        guard += 1
                    t = S.threads[tid]
                    fres.append(t.result if t.done else {"cls": "blocked"})
                results["followups"] = fres
            final_abs, junk = absfn.abstract(self.root, self.inst, detail=True)
            locks = self._lock_lists(store)
            for tid, t in S.threads.items():
                if tid.startswith("f") and tid[1:].isdigit():
                    continue
                if t.done:
                    results[tid] = t.result if t.exc is None else \
                        {"cls": "other:" + type(t.exc).__name__, "cid": "-", "data": "-",
                         "truth": True}
                else:
                    results[tid] = {"cls": "blocked", "cid": "-", "data": "-", "truth": True}
            pend = {tid: t.pending for tid, t in S.threads.items() if not t.done}
            S.kill_all()
        facts = {}
        for tid, call in self.sc.threads.items():
            if call["op"] != "store":
                continue
            tag_start = removal = None
            for idx, (who, tok) in enumerate(S.trace):
                if tok[0] != "fs":
                    continue
                if who == tid and tag_start is None and any(
                        x == ("pidref", call["pid"]) for x in tok[2]):
                    tag_start = idx
                if who != tid and tok[1] in ("rename", "replace", "remove", "unlink") \
                        and tok[2] and tok[2][0] == ("obj", call["c"]):
                    removal = idx
            if tag_start is not None and removal is not None:
                facts[tid] = "object_removed_before_store_tagging" if removal < tag_start \
                    else "object_removed_after_store_tagging"
        for rel, who in tmp_touch.items():
            if len(who) > 1 and rel not in self.shared_tmp:
                self.shared_tmp.add(rel)
                self.fp_grew = True          # explore again with this path as a shared object
                self.tmp_changed = True
        rec = {"outcome": outcome, "results": results, "final": final_abs, "junk": junk,
               "facts": facts, "raw": raw if record else None,
               "locks": locks, "schedule": list(sched_taken), "pending": pend,
               "trace": [(tid, tok) for tid, tok in S.trace]}
        return rec

    def _note_abs(self, sched_taken, digest):
        if digest in self.abs_cache:
            return
        a = absfn.abstract(self.root, self.inst)
        k = _json(a)
        self.abs_cache[digest] = k
        if k not in self.absstates:
            self.absstates[k] = (a, list(sched_taken))

    # ------------------------------------------------------------------ search
    def explore(self):
        """Explore to a fixpoint: the ample-set reduction relies on the threads' footprints
        (shared objects each one may touch); when a run enlarges a footprint the search is
        restarted with the larger footprints, so the final pass used a closed footprint."""
        self.passes = 0
        self.probe()
        while True:
            self.passes += 1
            self.fp_grew = False
            self.tmp_changed = False
            self.visited = set()
            self.outcomes = {}
            self._explore_once()
            if not self.fp_grew or self.runs >= self.max_runs:
                break
            if not self.use_ample and not self.shared_tmp:
                break
        return self

    def probe(self):
        """One uncollected run with the default schedule: discovers tmp paths that more than one
        thread uses (they become scheduling objects) before any state is recorded."""
        self.execute((), None, collect=False)
        self.tmp_changed = False
        self.fp_grew = False
        self.runs = 0
        self.steps = 0

    def _explore_once(self):
        stack = [()]
        while stack:
            if self.runs >= self.max_runs:
                self.exhaustive = False
                break
            prefix = stack.pop()
            rec = self.execute(prefix, stack)
            if getattr(self, "tmp_changed", False):
                return            # the set of scheduling objects changed: start the pass again
            if rec["outcome"] in ("done", "deadlock"):
                k = _json({"o": rec["outcome"], "r": rec["results"], "f": rec["final"],
                           "l": rec["locks"], "facts": rec["facts"]})
                e = self.outcomes.get(k)
                if e is None:
                    self.outcomes[k] = {"rec": rec, "count": 1}
                else:
                    e["count"] += 1
        return self


def _json(x):
    import json
    return json.dumps(x, sort_keys=True, default=str)


# --------------------------------------------------------------------------------------
# one scenario, many processes: shared visited table + shared work queue
# --------------------------------------------------------------------------------------
def _par_worker(args):
    sc, base, wid, visited, queue, pending, budget, pbound = args
    ex = Explorer(sc, os.path.join(base, "w%d" % wid), max_runs=10 ** 9, preemption_bound=pbound)
    ex.use_ample = False          # footprints are per process; no reduction in parallel mode
    ex.probe()
    ex.shared, ex.wid = visited, wid
    idle = 0
    while True:
        try:
            prefix = queue.get(timeout=0.2)
        except Exception:  # noqa  (queue.Empty through the manager)
            if pending.value <= 0:
                break
            idle += 1
            if idle > 3000:
                break
            continue
        idle = 0
        if budget.value <= 0:
            ex.exhaustive = False
            pending.value -= 1
            continue
        budget.value -= 1
        stack = []
        rec = ex.execute(tuple(prefix), stack)
        for alt in stack:
            pending.value += 1
            queue.put(alt)
        pending.value -= 1
        if rec["outcome"] in ("done", "deadlock"):
            k = _json({"o": rec["outcome"], "r": rec["results"], "f": rec["final"],
                       "l": rec["locks"], "facts": rec["facts"]})
            e = ex.outcomes.get(k)
            if e is None:
                ex.outcomes[k] = {"rec": rec, "count": 1}
            else:
                e["count"] += 1
    shutil.rmtree(os.path.join(base, "w%d" % wid), ignore_errors=True)
    return {"outcomes": ex.outcomes, "absstates": ex.absstates, "runs": ex.runs,
            "steps": ex.steps, "visited": ex.n_visited, "exhaustive": ex.exhaustive,
            "nondet": len(ex.nondeterminism), "start_abs": ex.start_abs}


def explore_parallel(sc, base, procs=16, max_runs=60000, preemption_bound=None):
    import multiprocessing
    ctx = multiprocessing.get_context("fork")
    mgr = ctx.Manager()
    visited, queue = mgr.dict(), mgr.Queue()
    pending, budget = mgr.Value("i", 1), mgr.Value("i", max_runs)
    queue.put(())
    os.makedirs(base, exist_ok=True)
    with ctx.Pool(procs) as pool:
        parts = pool.map(_par_worker, [(sc, base, w, visited, queue, pending, budget, preemption_bound)
                                       for w in range(procs)], chunksize=1)
    mgr.shutdown()
    outcomes, absstates = {}, {}
    for p in parts:
        for k, e in p["outcomes"].items():
            if k in outcomes:
                outcomes[k]["count"] += e["count"]
            else:
                outcomes[k] = e
        for k, v in p["absstates"].items():
            absstates.setdefault(k, v)
    return {"outcomes": outcomes, "absstates": absstates,
            "runs": sum(p["runs"] for p in parts), "steps": sum(p["steps"] for p in parts),
            "visited": sum(p["visited"] for p in parts),
            "exhaustive": all(p["exhaustive"] for p in parts) and preemption_bound is None,
            "nondet": sum(p["nondet"] for p in parts), "start_abs": parts[0]["start_abs"]}
