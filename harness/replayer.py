"""./check <Cxx> --replay <file>: re-execute a recorded violation against /repo's current tree
and have TLC judge it again.  Exit 1 if the clause is still false, 0 if it now holds."""
import json
import os
import shutil

from . import tlc


def replay(prop, path):
    with open(path) as f:
        r = json.load(f)
    kind = r.get("kind")
    print("replaying %s (%s, clause %s)" % (path, kind, r.get("clause")))
    if kind in ("sequential", "sequential-instantiated"):
        return _sequential(r)
    if kind in ("concurrent", "concurrent-state"):
        return _concurrent(r)
    if kind in ("crash", "fault"):
        return _crashfault(r)
    print("this record is one row of a product sweep; re-run the check itself:")
    print(json.dumps(r.get("record", r), indent=1, default=str)[:3000])
    print("how:", r.get("how"))
    return 2


def _sequential(r):
    from . import walker
    from .driver import Driver, load_hashstore
    from .ids import Inst, write_inputs
    kw = dict(r.get("inst") or dict(pids=["p1", "p2", "p3"], contents=["a", "b"], extras=[],
                                    fmts=["fD", "f2", "f3"], vers=["v1", "v2"]))
    if r.get("pid_strings"):
        kw["pid_strings"] = r["pid_strings"]
        kw["fmt_strings"] = r.get("fmt_strings")
    inst = Inst(**kw)
    base = os.path.join(tlc.scratch_root(), "replay")
    shutil.rmtree(base, ignore_errors=True)
    os.makedirs(base)
    fhs, _ = load_hashstore()
    inputs = write_inputs(inst, os.path.join(base, "inputs"))
    root = os.path.join(base, "store")
    os.makedirs(root)
    d = Driver(inst, root, inputs, fhs)
    rootrec = {"call": {"op": "init", "pid": "-", "c": "-", "val": "-", "fmt": "-", "ver": "-"},
               "res": {"cls": "ok", "cid": "-", "data": "-", "truth": True},
               "post": d.abstract(), "kids": []}
    node = rootrec
    for h in r["history"]:
        n = walker._step(d, h["call"], h["call"]["op"] in walker.READONLY_OPS)
        print("  %-60s recorded=%-12s now=%s" % (json.dumps([v for v in h["call"].values() if v != "-"]),
                                                  h["res"]["cls"], n["res"]["cls"]))
        node["kids"].append(n)
        node = n
    recs, order, parent = walker.flatten(rootrec)
    consts = dict(inst.constants())
    consts["Ops"] = ["store", "storenp", "tag", "delete", "dii", "retrieve", "hex", "putmeta",
                     "getmeta", "delmeta", "bad"]
    viol, drift, jr = walker.judge(recs, consts, workers=2)
    shutil.rmtree(base, ignore_errors=True)
    print("final abstract state:", json.dumps(node["post"]))
    print("clauses false now:", {k: v for k, v in viol.items()}, "drift steps:", drift)
    return 1 if r.get("clause") in viol else 0


def _concurrent(r):
    from . import conc, conccheck
    sc = r["scenario"]
    s = conc.Scenario(sc["name"], r["inst"], sc["setup"], sc["threads"], sc.get("mode", "th"))
    s.family = sc["name"].split("/")[0] if sc["name"][:3] in ("C07", "C12") else "C07"
    base = os.path.join(tlc.scratch_root(), "replayc")
    ex = conc.Explorer(s, base)
    ex.probe()
    rec = ex.execute(tuple(r["schedule"]), None, collect=False)
    shutil.rmtree(base, ignore_errors=True)
    print("schedule:", " ".join(r["schedule"]))
    print("results :", {t: x.get("cls") for t, x in rec["results"].items() if isinstance(x, dict)})
    print("final   :", json.dumps(rec["final"]))
    print("residue :", rec["junk"], "locks:", rec["locks"])
    res = [{"scenario": sc, "family": s.family, "start_abs": ex.start_abs,
            "outcomes": [{"rec": rec, "count": 1, "blocked": False, "followups": []}],
            "states": [(a, w) for a, w in ex.absstates.values()], "runs": 1, "steps": len(rec["schedule"]),
            "visited": 0, "exhaustive": False, "nondet": 0, "wall": 0, "inst": r["inst"]}]
    viol, jr, n_out, n_states = conccheck.judge(res, r["inst"])
    names = sorted({v[0] for v in viol})
    print("clauses false now:", names)
    return 1 if r.get("clause") in names else 0


def _crashfault(r):
    import errno
    from . import crashfault
    base = os.path.join(tlc.scratch_root(), "replayf")
    envdir = None
    if r.get("env"):
        # the scenario was enumerated with this variable naming a directory on another device
        os.makedirs(base, exist_ok=True)
        envdir = crashfault.other_device_dir(base)
        if envdir is None:
            print("no second writable device on this machine: cannot replay under", r["env"])
            return 2
        os.environ[r["env"]] = envdir
        print("replaying with %s=%s" % (r["env"], envdir))
    en = crashfault.Enumerator(r["start"], r["call"], base)
    if r["kind"] == "crash":
        x = en.crash(r["k"])
        res = [{"start": r["start"], "call": r["call"], "crashes": [x], "faults": []}]
        print("crashed state:", json.dumps(x["crashed"]))
        print("recovery     :", x["retrieve"]["cls"], x["delete"]["cls"], x["restore"]["cls"], x["reread"]["cls"])
    else:
        rec = r["record"]
        x = en.fault(r["k"], rec["mode"], getattr(errno, rec["errno"], errno.EIO))
        res = [{"start": r["start"], "call": r["call"], "crashes": [], "faults": [x]}]
        print("result:", x["res"]["cls"], "post:", json.dumps(x["post"]), "locks left:", x["locksLeft"],
              "retry:", x["retry"]["cls"])
    shutil.rmtree(base, ignore_errors=True)
    if envdir:
        shutil.rmtree(envdir, ignore_errors=True)
        os.environ.pop(r["env"], None)
    viol, jr, nc, nf = crashfault.judge(res)
    names = sorted({v[0] for v in viol})
    print("clauses false now:", names)
    return 1 if r.get("clause") in names else 0
