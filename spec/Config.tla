-------------------------------- MODULE Config --------------------------------
(***************************************************************************)
(* C14 - store configuration is pinned at creation.                        *)
(*                                                                         *)
(* A supplied property set is a record                                     *)
(*   [depth : [v, enc], width : [v, enc], algo, ns, defect]                *)
(* enc \in {"int","str"} (integer or integer-like string); defect names a  *)
(* malformation ("ok", "missing_depth", "none_algo", "nonint_width", ...). *)
(* The store directory is in one of the states                             *)
(*   "nopath" | "emptydir" | "datadirs" (objects/ etc. but no yaml) |      *)
(*   "created" (a store created earlier with configuration `made`)         *)
(* OpenOK is the decision the property states; nothing else is modelled    *)
(* because refusal must touch nothing and acceptance is the identity on    *)
(* existing data.                                                          *)
(***************************************************************************)
EXTENDS Naturals, FiniteSets

Five   == {"MD5", "SHA-1", "SHA-256", "SHA-384", "SHA-512"}
\* other spellings / unsupported names a caller may try
OtherAlgos == {"sha256", "SHA256", "md5", "sha-256", "SHA-224", "blake2b", "SHA3-256"}
Depths == 1..5
Widths == 1..4
Namespaces == {"https://ns.dataone.org/service/types/v2.0#SystemMetadata", "http://ns.example/other"}
Defects == {"ok", "missing_depth", "missing_width", "missing_algo", "missing_ns", "missing_path",
            "none_depth", "none_width", "none_algo", "none_ns",
            "nonint_depth", "nonint_width", "extra_key"}

WellFormedProps(s) == s.defect \in {"ok", "extra_key"}

SameConfig(made, s) ==
  /\ made.depth = s.depth.v      \* integers compare by value, whatever the encoding
  /\ made.width = s.width.v
  /\ made.algo = s.algo          \* strings compare verbatim
  /\ made.ns = s.ns

OpenOK(dirstate, made, s) ==
  /\ WellFormedProps(s)
  /\ CASE dirstate = "created"  -> SameConfig(made, s)
       [] dirstate = "datadirs" -> FALSE
       [] OTHER                 -> s.algo \in Five       \* creation

\* creation configurations and everything a caller may supply
Made == [depth : Depths, width : Widths, algo : Five, ns : Namespaces]
Supplied ==
  [depth : [v : Depths, enc : {"int", "str"}], width : [v : Widths, enc : {"int", "str"}],
   algo : Five \cup OtherAlgos, ns : Namespaces, defect : Defects]
=============================================================================
