#!/bin/sh
# usage: tools_mutant.sh <patch.diff> <check id>...   (applies to /repo, runs checks quick, reverts)
P="$1"; shift
cd /repo || exit 2
git diff --quiet || { echo "repo dirty"; exit 2; }
git apply "$P" || { echo "patch does not apply"; exit 2; }
for c in "$@"; do
  (cd /verif && ./check $c --tier ${TIER:-quick} 2>&1 | grep -E "^(VIOLATION|RESULT|KNOWN|DRIFT|MACHINERY)" | cut -c1-400 | head -${LINES_MAX:-6})
done
git -C /repo checkout -- . 
