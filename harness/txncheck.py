"""spec/TagTxn.tla (tag_object as a transaction with roll-back under one injected failure)
against the real code: TLC model-checks the transaction for every start, fault site and mode and
prints every terminal outcome keyed by the first failing site; the outcome the real code
produced for the fault at the same site (fault records of harness/crashfault) must be the same.
A mismatch is DRIFT (model and code disagree), never an alarm: alarms come from TraceFault's
clauses on the real records."""
import json

from . import tlc
from .crashfault import _opclass

SCEN = {("unref", "p1", "a"): (False, True), ("p2a", "p1", "a"): (True, True),
        ("empty", "p1", "a"): (False, False)}
FAM = {"read": "R", "write": "W", "flock": "flock", "remove": "remove"}


def model_outcomes():
    r = tlc.run_tlc("TagTxn", cfg_file="TagTxn.cfg", workers=4)
    outs = {}
    for line in r.printed("TXN"):
        o = json.loads(line)
        key = (o["haslist"], o["obj"], o["mode"], o["fam"], o["dest"], o["nth"])
        outs.setdefault(key, set()).add(
            (o["res"], o["pref"], o["has"], tuple(o["pids"])))
    return outs, r


DEL_SCEN = {("p1a", "p1"): False, ("shared", "p1"): True}


def delete_model_outcomes():
    r = tlc.run_tlc("DeleteTxn", cfg_file="DeleteTxn.cfg", workers=4)
    outs = {}
    for line in r.printed("TXN"):
        o = json.loads(line)
        key = (o["shared"], o["mode"], o["fam"], o["dest"], o["nth"])
        outs.setdefault(key, set()).add(
            (o["res"], o["pref"], o["has"], tuple(o["pids"]), o["obj"]))
    return outs, r


def compare_delete(fault_results):
    """spec/DeleteTxn.tla against the fault records of delete_object(p1) from `p1a` / `shared`."""
    outs, r = delete_model_outcomes()
    n, agree, missing, diffs = 0, 0, [], []
    for res in fault_results:
        c = res["call"]
        sk = (res["start"], c["pid"])
        if c["op"] != "delete" or sk not in DEL_SCEN:
            continue
        shared = DEL_SCEN[sk]
        for x in res["faults"]:
            fam, dest, nth = site_key(res["oplog"], x["k"])
            if fam == "prep":
                continue          # (directory probes of delete_metadata: no permanent file involved)
            key = (shared, "persist" if x["mode"] == "persistent" else "once", fam, dest, nth)
            post = x["post"]
            pids = tuple({"p1": "p", "p2": "q"}.get(p, p) for p in post["cref"]["a"]["pids"])
            seen = (x["res"]["cls"], "c" if post["pref"]["p1"] == "a" else post["pref"]["p1"],
                    post["cref"]["a"]["has"], pids, post["obj"]["a"])
            n += 1
            allowed = outs.get(key, set())
            if not allowed:
                missing.append({"scenario": "%s/delete" % res["start"], "site": [fam, dest, nth],
                                "mode": x["mode"]})
            elif seen in allowed:
                agree += 1
            else:
                diffs.append({"scenario": "%s/delete" % res["start"], "site": [fam, dest, nth],
                              "mode": x["mode"], "code": list(seen),
                              "model": [list(a) for a in sorted(allowed, key=str)]})
    return {"tlc_ok": r.ok, "model_states": r.distinct,
            "model_outcomes": sum(len(v) for v in outs.values()),
            "fault_records_compared": n, "agree": agree, "no_model_site": missing[:5],
            "n_no_model_site": len(missing), "differ": diffs[:5], "n_differ": len(diffs),
            "invariants": ["RaisesUnlessDone", "OthersUntouched", "ErrorOnlyIfFault", "Unlocked"]}


def site_key(oplog, k):
    """(family, destination kind, n-th site of that family and destination) of the k-th
    operation of the fault-free run."""
    op, toks = oplog[k - 1][0], oplog[k - 1][1]
    fam = _opclass(op)
    dest = toks[-1][0] if toks else "-"
    if dest in ("tmp", "dir") or fam not in FAM:
        return ("prep", "tmp", 1)
    nth = 0
    for (op2, toks2, *_rest) in oplog[:k]:
        if _opclass(op2) == fam and toks2 and toks2[-1][0] == dest and \
                toks2[-1][0] not in ("tmp", "dir"):
            nth += 1
    return (FAM[fam], dest, nth)


def compare(fault_results):
    """fault_results: crashfault.run(...) results (all scenarios; tag ones are used)."""
    outs, r = model_outcomes()
    n, agree, missing, diffs = 0, 0, [], []
    for res in fault_results:
        c = res["call"]
        sk = (res["start"], c["pid"], c["c"])
        if c["op"] != "tag" or sk not in SCEN:
            continue
        haslist, obj = SCEN[sk]
        for x in res["faults"]:
            fam, dest, nth = site_key(res["oplog"], x["k"])
            if fam == "prep":
                # the model has ONE preparation site; it stands for every mkdir / staged-file site
                keys = [(haslist, obj, m, "prep", "tmp", 1) for m in ("once", "persist")]
            else:
                keys = [(haslist, obj, "persist" if x["mode"] == "persistent" else "once",
                         fam, dest, nth)]
            post = x["post"]
            pids = tuple({"p1": "p", "p2": "q"}.get(p, p) for p in post["cref"]["a"]["pids"])
            seen = (x["res"]["cls"] if x["res"]["cls"] in ("ok", "ioerror") else x["res"]["cls"],
                    "c" if post["pref"]["p1"] == "a" else post["pref"]["p1"],
                    post["cref"]["a"]["has"], pids)
            n += 1
            allowed = set()
            for k_ in keys:
                allowed |= outs.get(k_, set())
            if not allowed:
                missing.append({"scenario": "%s/tag" % res["start"], "site": [fam, dest, nth],
                                "mode": x["mode"]})
            elif seen in allowed:
                agree += 1
            else:
                diffs.append({"scenario": "%s/tag" % res["start"], "site": [fam, dest, nth],
                              "mode": x["mode"], "code": list(seen),
                              "model": [list(a) for a in sorted(allowed, key=str)]})
    return {"tlc_ok": r.ok, "model_states": r.distinct, "model_outcomes": sum(len(v) for v in outs.values()),
            "fault_records_compared": n, "agree": agree, "no_model_site": missing[:5],
            "n_no_model_site": len(missing), "differ": diffs[:5], "n_differ": len(diffs),
            "invariants": ["RaisesUnlessDone", "NoHalfBound", "NoEmptyList", "OthersUntouched",
                           "ErrorOnlyIfFault", "Unlocked"]}
