#!/bin/sh
# Offline setup: nothing to build. Verify the tools the checks need are present.
set -e
cd "$(dirname "$0")"
test -x /venv/bin/python
test -f /opt/veriftools/tla/tla2tools.jar
java -version >/dev/null 2>&1
mkdir -p out evidence
/venv/bin/python -c "import yaml, hashlib"
(cd spec && for m in HashStoreAPI HSProps MCContract TraceProps; do tla-sany $m.tla >/dev/null 2>&1 || { echo "SANY failed on $m"; exit 1; }; done)
(cd spec/impl && for m in FileHashStore MCImpl MCImplCrash TraceSteps; do tla-sany $m.tla >/dev/null 2>&1 || { echo "SANY failed on impl/$m"; exit 1; }; done)
(cd spec && for m in HashStoreAPI HSProps MCContract TraceProps TraceLin TraceFault TraceTables TraceConfig TraceLayout TraceClient TraceConverge LockProtocol MCLock Algorithms Config Layout Client StreamModel MCStream TraceStream TagTxn DeleteTxn; do tla-sany $m.tla >/dev/null 2>&1 || { echo "SANY failed on $m"; exit 1; }; done)
echo setup ok
