----------------------------- MODULE TraceTables -----------------------------
(***************************************************************************)
(* code -> spec for the properties that quantify over INPUTS through small *)
(* finite decision tables (C01 sizes x data kinds x store algorithms, C02  *)
(* algorithm spellings and digest keys, C06 validation verdicts).          *)
(* The harness drives the real code over the product and writes one record *)
(* per execution; TLC judges every record with the operators of            *)
(* Algorithms.tla and checks that the product was covered.                 *)
(***************************************************************************)
EXTENDS Algorithms, TLC, Json, IOUtils, TLCExt

Obs == JsonDeserialize(IOEnv.TRACE_FILE)
N   == Len(Obs.records)

VARIABLE k
Init == k = 0
Next == k = 0 /\ k' \in 1..N
Spec == Init /\ [][Next]_k
R == Obs.records[k]

Log(name) == PrintT("VIOL " \o name \o " " \o ToString(k))
Judge(name, ok) == ok \/ Log(name)
Is(kind) == k > 0 /\ R.kind = kind
AsSet(seq) == {seq[i] : i \in 1..Len(seq)}

(***************************************************************************)
(* C02  digest keys depend only on the call; get_hex_digest spellings      *)
(*   keys : [add, sum, cls, keys, valuesTrue, nth]                         *)
(*   hex  : [algo, cls, valueTrue, nth]                                    *)
(***************************************************************************)
I_C02_Keys == Is("keys") =>
  Judge("C02_Keys",
        IF (R.add = None \/ Accepted(R.add)) /\ (R.sum = None \/ Accepted(R.sum))
          THEN /\ R.cls = "ok"
               /\ AsSet(R.keys) = Keys(R.add, R.sum)
               /\ Len(R.keys) = Cardinality(AsSet(R.keys))
               /\ R.valuesTrue
          ELSE R.cls = "unsupported")
I_C02_Hex == Is("hex") =>
  Judge("C02_GetHexDigest",
        IF Accepted(R.algo) THEN R.cls = "ok" /\ R.valueTrue ELSE R.cls = "unsupported")

(***************************************************************************)
(* C06  verdict = size and checksum match, whatever algorithm / spelling / *)
(*      letter case, whether or not identical content is already stored    *)
(*   verdict : [state, call, algo, sumcase, sizecase, cls, objBefore,      *)
(*              objAfter, boundAfter, junk, refsSame]                      *)
(***************************************************************************)
MismatchOK(r) ==
  \/ r.sizecase = "wrong" /\ r.sumcase = "wrong" /\ r.cls \in {"badsize", "badsum"}
  \/ r.sizecase = "wrong" /\ r.sumcase # "wrong" /\ r.cls = "badsize"
  \/ r.sizecase # "wrong" /\ r.sumcase = "wrong" /\ r.cls = "badsum"

I_C06_Valid == Is("verdict") =>
  Judge("C06_ValidVerdictAccepts",
        VerdictValid(R.sumcase, R.sizecase) =>
          /\ R.cls = "ok"
          /\ R.objAfter = "ok"
          /\ R.call = "store" => R.boundAfter
          /\ R.call = "dii" => R.refsSame /\ R.objBefore = "ok"
          /\ R.junk = 0)
I_C06_Invalid == Is("verdict") =>
  Judge("C06_InvalidVerdictRejects",
        ~VerdictValid(R.sumcase, R.sizecase) =>
          /\ MismatchOK(R)
          /\ ~R.boundAfter                 \* binds no pid
          /\ R.refsSame
          /\ R.junk = 0                    \* leaves no temporary file
          /\ R.call = "store" => R.objAfter = R.objBefore     \* adds no object
          /\ R.call = "dii" =>
               IF R.state = "ref" THEN R.objAfter = "ok"       \* referenced: kept
                                  ELSE R.objAfter = "absent")  \* unreferenced: removed

(***************************************************************************)
(* C01  stored bytes come back unchanged, addressed by their own hash      *)
(*   c01 : [size, data, algo, cls, cidTrue, sizeTrue, defaultKeys,         *)
(*          retrievedSame, stream, atAddress]                              *)
(***************************************************************************)
I_C01_Sweep == Is("c01") =>
  Judge("C01_StoreRoundTrip",
        /\ R.cls = "ok"
        /\ R.cidTrue /\ R.sizeTrue /\ R.defaultKeys
        /\ R.retrievedSame
        /\ R.atAddress
        /\ R.stream \in {"-", "ok"})

\* the harness covered the whole product the specification enumerates
SpellingCover ==
  \A s \in AllSpellings \cup Unsupported :
     \E i \in 1..N : Obs.records[i].kind = "hex" /\ Obs.records[i].algo = s
I_Cover == (k = 0 /\ Obs.expectSpellingCover) => Judge("COVER_spellings", SpellingCover)

AllJudged == PrintT("JUDGED " \o ToString(TLCGet("stats").distinct - 1) \o " OF " \o ToString(N))
=============================================================================
