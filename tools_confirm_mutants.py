#!/usr/bin/env python3
"""Confirm sub-agent mutants against /repo HEAD in scratch worktrees (outside /repo, /verif).
For each /tmp/mut/<Cxx>/<mN>: demo passes on pristine, patch applies, suite passes, demo fails.
Writes /tmp/mut/confirm.json."""
import json, os, subprocess, sys, glob, shutil

def sh(cmd, cwd=None, env=None, timeout=1800):
    p = subprocess.run(cmd, shell=True, cwd=cwd, env=env, stdout=subprocess.PIPE, stderr=subprocess.STDOUT, text=True, timeout=timeout)
    return p.returncode, p.stdout

out = {}
only = sys.argv[1:]
for d in sorted(glob.glob(os.environ.get("MUTROOT","/tmp/mut")+"/C*/m*")):
    mid = d[len(os.environ.get("MUTROOT","/tmp/mut"))+1:]
    if only and not any(mid.startswith(o) for o in only):
        continue
    if not os.path.exists(d + "/patch.diff") or not os.path.exists(d + "/demo.py"):
        out[mid] = {"ok": False, "why": "missing files"}; continue
    wt = "/tmp/wtc/" + mid.replace("/", "_")
    sh("git -C /repo worktree remove --force %s" % wt)
    shutil.rmtree(wt, ignore_errors=True)
    rc, o = sh("git -C /repo worktree add -q --detach %s HEAD" % wt)
    env = dict(os.environ, PYTHONPATH=wt + "/src")
    r = {}
    rc, o = sh("timeout 600 /venv/bin/python %s/demo.py" % d, cwd=wt, env=env); r["demo_pristine_rc"] = rc
    rc, o = sh("git apply %s/patch.diff" % d, cwd=wt)
    if rc != 0:
        rc, o = sh("patch -p1 -s --fuzz=3 < %s/patch.diff" % d, cwd=wt)
        r["applied"] = "fuzz" if rc == 0 else "no"
    else:
        r["applied"] = "clean"
    if r["applied"] != "no":
        sh("find . -name '*.orig' -delete; find . -name '*.rej' -delete", cwd=wt)
        rc, o = sh("git diff -- src", cwd=wt); r["diff"] = o
        rc, o = sh("timeout 1500 /venv/bin/python -m pytest -q -p no:cacheprovider --timeout=900 -n 4 2>&1 | tail -1", cwd=wt, env=env); r["suite"] = o.strip()
        rc, o = sh("timeout 600 /venv/bin/python %s/demo.py" % d, cwd=wt, env=env); r["demo_mutant_rc"] = rc; r["demo_tail"] = o[-400:]
    r["ok"] = (r.get("demo_pristine_rc") == 0 and r.get("applied") != "no" and "250 passed" in r.get("suite", "") and r.get("demo_mutant_rc", 0) != 0)
    out[mid] = r
    sh("git -C /repo worktree remove --force %s" % wt)
    shutil.rmtree(wt, ignore_errors=True)
    print(mid, {k: v for k, v in r.items() if k not in ("diff", "demo_tail")}, flush=True)
    json.dump(out, open(os.environ.get("MUTROOT","/tmp/mut")+"/confirm.json", "w"), indent=1)
