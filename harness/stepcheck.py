"""Step-level conformance: recorded executions of the real code against the implementation-
shaped PlusCal model (spec/impl/FileHashStore.tla) via spec/impl/TraceSteps.tla, and TLC model
checking of that model for the same scenarios (spec/impl/MCImpl.tla).
Disagreement is DRIFT (the code left the model), never an alarm by itself."""
import json
import multiprocessing
import os
import random
import re
import shutil
import subprocess
import time

from . import conc, tlc
from .conccheck import cstr

IMPL = os.path.join(tlc.SPEC, "impl")
NOPATH = ["-", "-"]
COND_TABLE = {"C1": "objpid", "C2": "cid", "C3": "doc", "C4": "refpid"}
SHARED = {"obj", "pidref", "cidref", "doc", "objdel", "pidrefdel", "cidrefdel", "docdel", "docdel2", "docdel3"}
MODELLED_OPS = {"store", "storenp", "tag", "delete", "dii", "putmeta", "getmeta", "delmeta", "retrieve"}


def semantic(raw):
    """Raw interposer / scheduler events -> the model's event vocabulary."""
    out = []
    mode = {}
    for e in raw:
        t, op = e["t"], e["op"]
        if op == "sec":
            out.append({"t": t, "op": "sec", "a": ["lock", e["lock"]], "b": NOPATH,
                        "out": e["out"] or "peek", "val": []})
            continue
        if op == "wakeup":
            out.append({"t": t, "op": "wakeup", "a": ["table", COND_TABLE.get(e["cond"], e["cond"])],
                        "b": NOPATH, "out": e["out"] or "claim", "val": []})
            continue
        tok = [list(x) for x in e["tok"]]
        kinds = [k for k, _ in tok]
        res = e["out"]
        okfnf = "ok" if not res.startswith("!") else ("!fnf" if "NotFound" in res else res)
        if op in ("rename", "replace"):
            if kinds[0] in SHARED or kinds[-1] in SHARED:
                out.append({"t": t, "op": "rename", "a": tok[0], "b": tok[-1], "out": okfnf, "val": []})
            continue
        if not any(k in SHARED for k in kinds):
            continue
        a = tok[0]
        key = (t, tuple(a))
        if op in ("stat", "lstat"):
            if res.startswith("!"):
                o = "N"
            elif a[0] == "cidref" and res == "F0":
                o = "F0"
            else:
                o = "F" if res.startswith("F") else "N"
            out.append({"t": t, "op": "stat", "a": a, "b": NOPATH, "out": o, "val": []})
        elif op == "open:r":
            mode[key] = "r"
            if a[0] in ("pidref", "cidref", "doc", "obj"):
                out.append({"t": t, "op": "read", "a": a, "b": NOPATH, "out": okfnf,
                            "val": e.get("val", [])})
        elif op == "open:rw":
            mode[key] = "rw"
            out.append({"t": t, "op": "openrw", "a": a, "b": NOPATH, "out": okfnf,
                        "val": e.get("val", [])})
        elif op == "open:a":
            mode[key] = "a"
            if res.startswith("!"):
                out.append({"t": t, "op": "append", "a": a, "b": NOPATH, "out": okfnf, "val": []})
        elif op == "f.write":
            m = mode.get(key)
            if m == "rw":
                out.append({"t": t, "op": "rewrite", "a": a, "b": NOPATH, "out": "ok", "val": []})
            elif m == "a":
                out.append({"t": t, "op": "append", "a": a, "b": NOPATH, "out": "ok", "val": []})
        elif op == "f.truncate":
            out.append({"t": t, "op": "truncate", "a": a, "b": NOPATH, "out": "ok", "val": []})
        elif op in ("remove", "unlink"):
            out.append({"t": t, "op": "remove", "a": a, "b": NOPATH, "out": okfnf, "val": []})
    return out


def _tlc(module, cfg_tmpl, consts, scen_file, workers, timeout=900):
    work = os.path.join(tlc.scratch_root(), "impl.%d.%d" % (os.getpid(), random.randrange(1 << 30)))
    os.makedirs(work, exist_ok=True)
    cfg = os.path.join(work, "run.cfg")
    txt = open(os.path.join(IMPL, cfg_tmpl)).read()
    for k, val in consts.items():
        txt = txt.replace("@%s@" % k, tlc.tla_set(val))
    with open(cfg, "w") as f:
        f.write(txt)
    cmd = ["java", "-XX:+UseParallelGC", "-Xmx3g", "-cp", tlc.JAR, "tlc2.TLC", "-workers", str(workers),
           "-metadir", os.path.join(work, "meta"), "-noGenerateSpecTE", "-config", cfg, module]
    env = dict(os.environ, SCEN_FILE=scen_file)
    t0 = time.time()
    try:
        p = subprocess.run(cmd, cwd=IMPL, env=env, stdout=subprocess.PIPE, stderr=subprocess.STDOUT,
                           text=True, timeout=timeout)
        out = p.stdout
    except subprocess.TimeoutExpired as e:
        so = e.stdout or ""
        if isinstance(so, bytes):          # (bytes even with text=True)
            so = so.decode("utf-8", "replace")
        out = so + "\nTIMEOUT"
    shutil.rmtree(work, ignore_errors=True)
    return out, time.time() - t0


def scenario_ok(sc):
    return all(c["op"] in MODELLED_OPS for c in sc.threads.values())


def _one(args):
    sc, idx, nruns, seed, do_mc, do_crash = args
    base = os.path.join(tlc.scratch_root(), "step.%d.%d" % (os.getpid(), idx))
    res = {"scenario": sc.name, "runs": 0, "accepted": 0, "stuck": [], "mc": None}
    try:
        ex = conc.Explorer(sc, base, max_runs=0)
        ex.probe()
        rnd = random.Random(seed + idx)
        runs = []
        seen = set()
        tries = 0
        while len(runs) < nruns and tries < nruns * 4:
            tries += 1
            # a random schedule: random prefix, default policy afterwards
            n = rnd.randint(0, 60)
            tids = sorted(sc.threads)
            # feasibility is checked by the explorer: an infeasible choice ends the prefix
            rec = ex.execute(tuple(), None, collect=False, record=True) if tries == 1 else \
                _random_run(ex, rnd, tids)
            if rec is None or rec["outcome"] != "done":
                continue
            key = json.dumps(rec["schedule"])
            if key in seen:
                continue
            seen.add(key)
            runs.append({"events": semantic(rec["raw"]),
                         "results": {t: rec["results"][t]["cls"] for t in tids},
                         "data": {t: (rec["results"][t]["data"]
                                      if sc.threads[t]["op"] in ("store", "storenp", "getmeta", "retrieve")
                                      and rec["results"][t]["cls"] == "ok" else "-") for t in tids},
                         "schedule": rec["schedule"]})
        # planted corruptions of the first recorded run: the model must REJECT each of them
        # (demonstrates that the trace specification constrains more than length)
        n_real = len(runs)
        planted = []
        if runs and idx % 4 == 0:
            import copy
            base_run = runs[0]
            evs = base_run["events"]
            ks = [k for k, e in enumerate(evs) if e["op"] == "stat"]
            if ks:
                c1 = copy.deepcopy(base_run)
                k = ks[len(ks) // 2]
                c1["events"][k]["out"] = "N" if c1["events"][k]["out"] != "N" else "F"
                planted.append(("flip one stat outcome", c1))
            ks = [k for k, e in enumerate(evs) if e["op"] == "sec" and e["out"] == "release"]
            if ks:
                c2 = copy.deepcopy(base_run)
                del c2["events"][ks[0]]
                planted.append(("drop one release event", c2))
            ks = [k for k, e in enumerate(evs) if e["op"] == "rename"]
            if ks:
                c3 = copy.deepcopy(base_run)
                k = ks[-1]
                if k > 0:
                    c3["events"][k - 1], c3["events"][k] = c3["events"][k], c3["events"][k - 1]
                    if c3["events"] != evs:
                        planted.append(("swap a rename with the step before it", c3))
        runs = runs + [c for _, c in planted]
        scen = {"job": {t: c for t, c in sc.threads.items()}, "start": ex.start_abs, "runs": runs}
        sf = os.path.join(base, "scen.json")
        with open(sf, "w") as f:
            json.dump(scen, f)
        consts = dict(ex.inst.constants())
        consts["Ops"] = sorted(MODELLED_OPS)
        out, wall = _tlc("TraceSteps.tla", "TraceSteps.cfg.tmpl", consts, sf, 1)
        got = {}
        for m in re.finditer(r'"RUN (\d+) (-?\d+) OF (\d+)"', out):
            got[int(m.group(1))] = (int(m.group(2)), int(m.group(3)))
        res["runs"] = n_real
        res["events"] = sum(len(r_["events"]) for r_ in runs[:n_real])
        res["planted"] = len(planted)
        res["planted_rejected"] = 0
        if len(got) != len(runs):
            res["error"] = out[-1500:]
        for k, (at, total) in sorted(got.items()):
            if k > n_real:
                if at != -1:
                    res["planted_rejected"] += 1
                else:
                    res.setdefault("planted_accepted", []).append(planted[k - n_real - 1][0])
                continue
            if at == -1:
                res["accepted"] += 1
            else:
                ev = runs[k - 1]["events"]
                res["stuck"].append({"run": k, "matched": max(0, at - 1), "of": total,
                                     "next_event": ev[at - 1] if 0 < at <= len(ev) else None,
                                     "schedule": runs[k - 1]["schedule"]})
        res["trace_wall"] = round(wall, 1)
        if do_mc:
            has_reader = any(c["op"] == "retrieve" for c in sc.threads.values())
            out, wall = _tlc("MCImpl.tla", "MCImplReaders.cfg.tmpl" if has_reader else "MCImpl.cfg.tmpl",
                             consts, sf, 2)
            m = re.search(r"(\d+) states generated, (\d+) distinct states found", out)
            res["mc"] = {"generated": int(m.group(1)) if m else 0, "distinct": int(m.group(2)) if m else 0,
                         "violated": re.findall(r"Invariant (\S+) is violated", out)
                         + (["Termination"] if "Temporal properties were violated" in out else [])
                         + (["deadlock"] if "Deadlock reached" in out else []),
                         "ok": "No error has been found" in out, "wall": round(wall, 1),
                         "timeout": out.rstrip().endswith("TIMEOUT")}
            outs = set()
            for line in out.splitlines():
                if line.startswith('"OUT '):
                    try:
                        o = json.loads(json.loads(line)[4:])
                        outs.add(json.dumps({"res": o["res"], "st": o["st"]}, sort_keys=True))
                    except Exception:  # noqa
                        pass
            res["model_outcomes"] = sorted(outs)
        if do_crash and len(sc.threads) == 2:
            out, wall = _tlc("MCImplCrash.tla", "MCImplCrash.cfg.tmpl", consts, sf, 2)
            m = re.search(r"(\d+) states generated, (\d+) distinct states found", out)
            res["crash_mc"] = {"distinct": int(m.group(2)) if m else 0,
                               "violated": re.findall(r"Invariant (\S+) is violated", out),
                               "ok": "No error has been found" in out, "wall": round(wall, 1)}
            outs = set()
            for line in out.splitlines():
                if line.startswith('"OUT '):
                    try:
                        o = json.loads(json.loads(line)[4:])
                        outs.add(json.dumps({"res": o["res"], "st": o["st"]}, sort_keys=True))
                    except Exception:  # noqa
                        pass
            res["model_outcomes"] = sorted(outs)
    finally:
        shutil.rmtree(base, ignore_errors=True)
    return res


def _random_run(ex, rnd, tids):
    """One run under a random scheduling policy, recorded."""
    # the explorer's default policy keeps the running thread; randomise by a random prefix
    # built incrementally: run, look at the schedule taken, perturb one position
    rec = ex.execute(tuple(), None, collect=False, record=False)
    sched_taken = rec["schedule"]
    if not sched_taken:
        return None
    k = rnd.randrange(len(sched_taken))
    others = [t for t in tids if t != sched_taken[k]]
    if not others:
        return ex.execute(tuple(), None, collect=False, record=True)
    prefix = tuple(sched_taken[:k]) + (rnd.choice(others),)
    rec2 = ex.execute(prefix, None, collect=False, record=True)
    if rec2["outcome"] == "nondet":
        return None
    # second perturbation
    s2 = rec2["schedule"]
    if len(s2) > k + 2 and rnd.random() < 0.7:
        j = rnd.randrange(k + 1, len(s2))
        o2 = [t for t in tids if t != s2[j]]
        r3 = ex.execute(tuple(s2[:j]) + (rnd.choice(o2),), None, collect=False, record=True)
        if r3["outcome"] == "done":
            return r3
    return rec2


def run(scenarios, nruns=6, seed=0, do_mc=True, procs=16, do_crash=False):
    scs = [s for s in scenarios if scenario_ok(s)]
    jobs = [(s, i, nruns, seed, do_mc, do_crash) for i, s in enumerate(scs)]
    with multiprocessing.get_context("fork").Pool(min(procs, max(1, len(jobs)))) as pool:
        return pool.map(_one, jobs, chunksize=1)
