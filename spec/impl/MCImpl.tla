-------------------------------- MODULE MCImpl --------------------------------
(***************************************************************************)
(* Model checking the implementation-shaped model for one scenario          *)
(* (start state + one call per thread, read from $SCEN_FILE, the same       *)
(* scenario records the harness explores on the real code):                 *)
(*   every interleaving of the labelled steps; at termination the results   *)
(*   and the final store state must be those of some sequential order of    *)
(*   the calls through the contract Apply (C07), no identifier may stay     *)
(*   locked (C08), TLC's deadlock check covers termination (C08), and an    *)
(*   object only ever appears / disappears by a single rename (C09).        *)
(* (Before the repair of K1 - a store whose object was removed by a         *)
(* concurrent deleter before tagging - that behaviour was a behaviour of    *)
(* this model too; K1Shape characterises it.  With the repair modelled,     *)
(* TLC verifies StrictLinearizable.)                                        *)
(***************************************************************************)
EXTENDS FileHashStore, Json, IOUtils

Scen      == JsonDeserialize(IOEnv.SCEN_FILE)
ScenJob   == Scen.job
ScenStart == Scen.start
ScenThread == DOMAIN Scen.job

LocksEmpty == AllDone => (\A tbl \in Tables : locked[tbl] = <<>> /\ waitq[tbl] = <<>>) /\ woken = {}

Orders(live) ==
  LET m == Cardinality(live) IN
  {f \in [1..m -> live] : \A x, y \in 1..m : x # y => f[x] # f[y]}

RECURSIVE RunSeq(_, _, _)
RunSeq(s, perm, j) ==
  IF j > Len(perm) THEN s = Abs
  ELSE LET a == Apply(s, Job[perm[j]]) IN
       a.res.cls = result[perm[j]] /\ a.res.data = rdata[perm[j]] /\ RunSeq(a.st, perm, j + 1)

InProgressOK(t) ==
  /\ Job[t].op = "store"
  /\ \E u \in Thread \ {t} : Job[u].pid = Job[t].pid /\ Job[u].op \in {"store", "delete"}

Linearizable ==
  LET live == {t \in Thread : result[t] # "inprogress"} IN
  /\ \A t \in Thread \ live : InProgressOK(t)
  /\ \E perm \in Orders(live) : RunSeq(Start, perm, 1)

\* K1: a store that returned ok while the object it deduplicated against / published was
\* removed by a concurrent deleter before the store tagged
K1Shape == \E t \in Thread :
   /\ Job[t].op = "store" /\ result[t] = "ok"
   /\ obj[Job[t].c] = "absent" /\ pref[Job[t].pid] = Job[t].c
   /\ \E u \in Thread \ {t} : Job[u].op \in {"delete", "dii"}

LinearizableOrK1 == AllDone => (Linearizable \/ K1Shape)
StrictLinearizable == AllDone => Linearizable
NoResidue == AllDone => mark = {}
\* every terminal outcome of the model (results + final abstract store), for comparison with
\* the outcomes the harness observed from the real code on the same scenario
DumpOutcome == AllDone => PrintT("OUT " \o ToJson([res |-> result, st |-> Abs]))

\* Readers take no lock and are not promised linearizability; what C09 / C10 promise them is
\* that they are served the COMPLETE RIGHT bytes or an error, never something else
ReaderSafe == \A th \in Thread :
   (Job[th].op = "retrieve" /\ result[th] = "ok") =>
      rdata[th] \in {Start.pref[Job[th].pid]}
                    \cup {Job[u].c : u \in {w \in Thread : Job[w].pid = Job[th].pid
                                                            /\ Job[w].op \in {"store", "tag"}}}

\* the event history variable does not influence behaviour: hide it from the fingerprint
ViewNoEv == <<pc, obj, pref, cref, doc, mark, keep, locked, waitq, woken, result, rdata, stack, vtb_, vid_, vtb, vid, vp_, vc_t, va_, vb_, vout, vmade, vrp, vrl_, vp_s, vc_s, vval, vx_, vc, vb_d, vx_d, vp_d, vc_, vcls, vrl_d, va_d, vb_de, vx_de, vdels, vdocs, vf_, vp_de, vtodo, vkeepl, vmarked, ve, vp_p, vf_p, vver, vp_g, vf_g, vx_g, vp_del, vf, vx_del, vp_delm, vp, vc_r, vrl, va, vb, vx>>
=============================================================================
