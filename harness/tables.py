"""Input-product sweeps on the real code, judged by TLC (spec/TraceTables.tla):
   C02 spellings / digest keys, C06 validation verdicts, C01 sizes x data kinds x algorithms.
The products (spellings, unsupported names) are ENUMERATED BY TLC from Algorithms.tla."""
import hashlib
import io
import json
import multiprocessing
import os
import random
import shutil
from pathlib import Path

from . import absfn, tlc
from .driver import classify, load_hashstore
from .ids import Inst, write_inputs, DEFAULT5, ALGO_HASHLIB

INST = dict(pids=["p1", "p2"], contents=["a", "b"], extras=[], fmts=["fD"], vers=["v1"])


def spelling_table():
    r = tlc.run_tlc("MCAlgorithms", cfg_file="MCAlgorithms.cfg", workers=1)
    if not r.ok:
        raise RuntimeError("MCAlgorithms failed:\n" + r.out[-2000:])
    sp = json.loads(r.printed("SPELLINGS")[0])
    un = json.loads(r.printed("UNSUPPORTED")[0])
    table = {"".join(e["algo"]): ["".join(s) for s in e["spellings"]] for e in sp}
    return table, ["".join(u) for u in un], r


def chars(s):
    return [] if s is None else list(s)


def judge(records, expect_cover=False):
    work = os.path.join(tlc.scratch_root(), "tab.%d" % os.getpid())
    os.makedirs(work, exist_ok=True)
    tf = os.path.join(work, "obs.json")
    with open(tf, "w") as f:
        json.dump({"records": records, "expectSpellingCover": bool(expect_cover)}, f)
    r = tlc.run_tlc("TraceTables", cfg_file="TraceTables.cfg", workers=8, env={"TRACE_FILE": tf})
    shutil.rmtree(work, ignore_errors=True)
    judged = r.printed("JUDGED")
    if not r.ok or not judged or judged[0].split()[0] != str(len(records)):
        raise RuntimeError("TraceTables did not judge everything (%s of %d)\n%s"
                           % (judged, len(records), r.out[-3000:]))
    viol = []
    for l in r.printed("VIOL"):
        name, k = l.split()
        viol.append((name, int(k)))
    return viol, r


def _cls(e, op="store"):
    return classify(e, op)


# ------------------------------------------------------------------------------- C02
def sweep_c02(tier, seed):
    table, unsupported, r0 = spelling_table()
    fhs, _ = load_hashstore()
    inst = Inst(**INST)
    base = os.path.join(tlc.scratch_root(), "c02.%d" % os.getpid())
    shutil.rmtree(base, ignore_errors=True)
    os.makedirs(base)
    inputs = write_inputs(inst, os.path.join(base, "inputs"))
    root = os.path.join(base, "store")
    os.makedirs(root)
    store = fhs.FileHashStore(inst.props(root))     # ONE instance for the whole history
    rnd = random.Random(seed)
    canon = {}
    for a, sps in table.items():
        for s in sps:
            canon[s] = a
    allsp = sorted(canon)
    records = []
    nth = [0]

    def store_call(add, summ):
        nth[0] += 1
        c = rnd.choice(["a", "b"])
        pid = "c02-pid-%d" % nth[0]
        checksum = None
        if summ is not None:
            checksum = hashlib.new(canon[summ], inst.content[c]).hexdigest() if summ in canon \
                else "00"
        rec = {"kind": "keys", "add": chars(add), "sum": chars(summ), "nth": nth[0],
               "cls": "-", "keys": [], "valuesTrue": True}
        try:
            om = store.store_object(pid, inputs[("c", c)], add, checksum, summ)
            rec["cls"] = "ok"
            rec["keys"] = [list(k) for k in om.hex_digests]
            for k, v in om.hex_digests.items():
                try:
                    if hashlib.new(k, inst.content[c]).hexdigest() != v:
                        rec["valuesTrue"] = False
                except Exception:  # noqa
                    rec["valuesTrue"] = False
            if om.cid != inst.cid[c] or om.obj_size != len(inst.content[c]):
                rec["valuesTrue"] = False
            if rnd.random() < 0.5:
                store.delete_object(pid)
        except BaseException as e:  # noqa
            rec["cls"] = _cls(e)
        records.append(rec)

    store_call(None, None)
    for s in allsp + unsupported:
        store_call(s, None)
        store_call(None, None)          # a plain call right after: must not inherit anything
        store_call(None, s)
    pairs = 150 if tier == "quick" else 2500
    for _ in range(pairs):
        add = rnd.choice(allsp + [None, None] + unsupported[:1])
        summ = rnd.choice(allsp + [None, None])
        store_call(add, summ)
    # data-only stores report the default five only
    for _ in range(5):
        nth[0] += 1
        rec = {"kind": "keys", "add": [], "sum": [], "nth": nth[0], "cls": "-", "keys": [],
               "valuesTrue": True}
        try:
            om = store.store_object(None, inputs[("c", "a")])
            rec["cls"] = "ok"
            rec["keys"] = [list(k) for k in om.hex_digests]
        except BaseException as e:  # noqa
            rec["cls"] = _cls(e)
        records.append(rec)
    # get_hex_digest: every spelling, then again after the pid was re-bound to other content
    pid = "c02-hex-pid"
    for round_, c in enumerate(["a", "b", "a"]):
        store.store_object(pid, inputs[("c", c)])
        for s in allsp + unsupported:
            nth[0] += 1
            rec = {"kind": "hex", "algo": chars(s), "nth": nth[0], "cls": "-", "valueTrue": True,
                   "round": round_}
            try:
                d = store.get_hex_digest(pid, s)
                rec["cls"] = "ok"
                rec["valueTrue"] = (s in canon and
                                    d == hashlib.new(canon[s], inst.content[c]).hexdigest())
            except BaseException as e:  # noqa
                rec["cls"] = _cls(e, "hex")
            records.append(rec)
        store.delete_object(pid)
    shutil.rmtree(base, ignore_errors=True)
    return records, table, unsupported, r0


# ------------------------------------------------------------------------------- C06
def _mixed(h):
    return "".join(ch.upper() if i % 2 else ch for i, ch in enumerate(h))


def _c06_worker(args):
    jobs, base = args
    fhs, _ = load_hashstore()
    inst = Inst(**INST)
    os.makedirs(base, exist_ok=True)
    inputs = write_inputs(inst, os.path.join(base, "inputs"))
    out = []
    c = "a"
    content = inst.content[c]
    for j, job in enumerate(jobs):
        state, call, spelling, algo, sumcase, sizecase = job[:6]
        addcase = job[6] if len(job) > 6 else "none"
        # the additional algorithm is not part of the verdict: naming the checksum algorithm,
        # the store's own algorithm or an unrelated one there must not change it
        add = {"none": None, "same": spelling, "store": "SHA-256", "other": "md5"}[addcase]
        root = os.path.join(base, "s%d" % j)
        shutil.rmtree(root, ignore_errors=True)
        os.makedirs(root)
        store = fhs.FileHashStore(inst.props(root))
        om0 = None
        if state == "unref":
            om0 = store.store_object(None, inputs[("c", c)])
        elif state == "ref":
            om0 = store.store_object(inst.pid["p2"], inputs[("c", c)])
        before = absfn.abstract(root, inst)
        true = hashlib.new(algo, content).hexdigest()
        checksum = {"lower": true, "upper": true.upper(), "mixed": _mixed(true),
                    "wrong": hashlib.new(algo, b"other").hexdigest(), "absent": None}[sumcase]
        size = {"correct": len(content), "wrong": len(content) + 3, "absent": None}[sizecase]
        alg = spelling if sumcase != "absent" else None
        rec = {"kind": "verdict", "state": state, "call": call, "algo": chars(spelling),
               "sumcase": sumcase, "sizecase": sizecase, "add": addcase}
        try:
            if call == "store":
                store.store_object(inst.pid["p1"], inputs[("c", c)], add, checksum, alg, size)
            else:
                om = fhs.ObjectMetadata(None, inst.cid[c], len(content),
                                        {a: hashlib.new(a, content).hexdigest() for a in DEFAULT5})
                store.delete_if_invalid_object(om, checksum, spelling, size)
            rec["cls"] = "ok"
        except BaseException as e:  # noqa
            rec["cls"] = _cls(e, call)
        after = absfn.abstract(root, inst)
        rec["objBefore"] = before["obj"][c]
        rec["objAfter"] = after["obj"][c]
        rec["boundAfter"] = after["pref"]["p1"] != "none" or "p1" in after["cref"][c]["pids"]
        rec["junk"] = after["junk"]
        a2 = json.loads(json.dumps(after))
        b2 = json.loads(json.dumps(before))
        for s in (a2, b2):
            s["pref"].pop("p1")
            s["cref"][c]["pids"] = [x for x in s["cref"][c]["pids"] if x != "p1"]
            s["cref"][c]["has"] = bool(s["cref"][c]["pids"])
        rec["refsSame"] = (a2["pref"] == b2["pref"] and a2["cref"] == b2["cref"])
        out.append(rec)
        shutil.rmtree(root, ignore_errors=True)
    shutil.rmtree(base, ignore_errors=True)
    return out


def sweep_c06(tier, seed):
    table, unsupported, r0 = spelling_table()
    jobs = []
    for state in ("absent", "unref", "ref"):
        for algo, sps in sorted(table.items()):
            use = sps if tier == "thorough" else [sps[0], sps[len(sps) // 2], sps[-1]]
            for sp in use:
                for sumcase in ("lower", "upper", "mixed", "wrong"):
                    for sizecase in ("correct", "wrong", "absent"):
                        jobs.append((state, "store", sp, algo, sumcase, sizecase))
                    if state != "absent":
                        for sizecase in ("correct", "wrong"):
                            jobs.append((state, "dii", sp, algo, sumcase, sizecase))
        for sizecase in ("correct", "wrong", "absent"):
            jobs.append((state, "store", "sha256", "sha256", "absent", sizecase))
        # ... and with an additional algorithm named in the same call
        for algo, sps in sorted(table.items()):
            for sp in ([sps[0], sps[-1]] if tier == "quick" else sps):
                for addcase in ("same", "store", "other"):
                    for sumcase, sizecase in (("lower", "correct"), ("wrong", "correct"),
                                              ("upper", "wrong"), ("wrong", "absent")):
                        jobs.append((state, "store", sp, algo, sumcase, sizecase, addcase))
    base = os.path.join(tlc.scratch_root(), "c06.%d" % os.getpid())
    n = 16
    chunks = [(jobs[i::n], os.path.join(base, "w%d" % i)) for i in range(n)]
    with multiprocessing.get_context("fork").Pool(n) as pool:
        res = pool.map(_c06_worker, chunks)
    shutil.rmtree(base, ignore_errors=True)
    return [r for chunk in res for r in chunk], table


# ------------------------------------------------------------------------------- C01
SIZES = [0, 1, 4095, 4096, 4097, 8191, 8192, 8193, 12305, 16383, 16384, 16385, 24593]
KINDS = ["str", "Path", "file@0", "file@mid", "file@eof", "bytesio@0", "bytesio@mid",
         "bufferedreader"]


def _logging(cls):
    class Logged(cls):
        def _init_log(self):
            self.oplog = []
            return self

        def tell(self):
            r = super().tell()
            if hasattr(self, "oplog"):
                self.oplog.append({"op": "tell", "arg": 0, "res": r})
            return r

        def seek(self, off, whence=0):
            r = super().seek(off, whence)
            if hasattr(self, "oplog"):
                self.oplog.append({"op": "seek", "arg": off, "res": r})
            return r

        def read(self, size=-1):
            d = super().read(size)
            if hasattr(self, "oplog"):
                self.oplog.append({"op": "read", "arg": size if size is not None else -1,
                                   "res": len(d)})
            return d
    return Logged


LogBuffered = _logging(io.BufferedReader)
LogBytesIO = _logging(io.BytesIO)


def _c01_worker(args):
    algo, sizes, kinds, base, seed = args
    fhs, _ = load_hashstore()
    h = ALGO_HASHLIB[algo]
    os.makedirs(base, exist_ok=True)
    root = os.path.join(base, "store")
    os.makedirs(root)
    store = fhs.FileHashStore({"store_path": root, "store_depth": 3, "store_width": 2,
                               "store_algorithm": algo,
                               "store_metadata_namespace": "https://ns.dataone.org/service/types/v2.0#SystemMetadata"})
    rnd = random.Random(seed)
    out = []
    n = 0
    for size in sizes:
        for kind in kinds:
            n += 1
            data = bytes(rnd.getrandbits(8) for _ in range(size)) if size < 64 else \
                rnd.randbytes(size)
            fpath = os.path.join(base, "in_%d" % n)
            with open(fpath, "wb") as f:
                f.write(data)
            pid = "c01:%s:%d:%s" % (algo, size, kind)
            rec = {"kind": "c01", "size": size, "data": kind, "algo": algo, "cls": "-",
                   "cidTrue": False, "sizeTrue": False, "defaultKeys": False,
                   "retrievedSame": False, "stream": "-", "atAddress": True}
            stream = None
            pos = None
            try:
                if kind == "str":
                    arg = fpath
                elif kind == "Path":
                    arg = Path(fpath)
                elif kind.startswith("file@"):
                    stream = LogBuffered(io.FileIO(fpath, "rb"))
                    pos = {"0": 0, "mid": size // 2, "eof": size}[kind[5:]]
                    stream.seek(pos)
                    stream._init_log()
                    arg = stream
                elif kind.startswith("bytesio@"):
                    stream = LogBytesIO(data)
                    pos = {"0": 0, "mid": size // 2}[kind[8:]]
                    stream.seek(pos)
                    stream._init_log()
                    arg = stream
                else:
                    stream = LogBuffered(io.BytesIO(data))
                    pos = 0
                    stream._init_log()
                    arg = stream
                om = store.store_object(pid, arg)
                if stream is not None:
                    ops = list(stream.oplog)
                    del stream.oplog
                    reads = [o for o in ops if o["op"] == "read"]
                    rec["streamlog"] = {"n": size, "k": pos, "b": reads[0]["arg"] if reads else 1,
                                        "ops": ops}
                rec["cls"] = "ok"
                rec["cidTrue"] = om.cid == hashlib.new(h, data).hexdigest()
                rec["sizeTrue"] = om.obj_size == size
                rec["defaultKeys"] = (set(om.hex_digests) == set(DEFAULT5) and all(
                    hashlib.new(k, data).hexdigest() == v for k, v in om.hex_digests.items()))
                if stream is not None:
                    if stream.closed:
                        rec["stream"] = "closed"
                    else:
                        rec["stream"] = "ok" if stream.tell() == pos else "moved"
                # other pids' calls in between
                other = "c01-other:%d" % n
                store.store_object(other, fpath)
                store.delete_object(other)
                f = store.retrieve_object(pid)
                try:
                    rec["retrievedSame"] = f.read() == data
                finally:
                    f.close()
            except BaseException as e:  # noqa
                rec["cls"] = _cls(e)
                rec["err"] = repr(e)[:120]
            finally:
                if stream is not None and not stream.closed:
                    stream.close()
                os.remove(fpath)
            out.append(rec)
    shutil.rmtree(base, ignore_errors=True)
    return out


def sweep_c01(tier, seed):
    base = os.path.join(tlc.scratch_root(), "c01.%d" % os.getpid())
    jobs = [(algo, SIZES, KINDS, os.path.join(base, algo), seed)
            for algo in ("MD5", "SHA-1", "SHA-256", "SHA-384", "SHA-512")]
    with multiprocessing.get_context("fork").Pool(5) as pool:
        res = pool.map(_c01_worker, jobs)
    shutil.rmtree(base, ignore_errors=True)
    return [r for chunk in res for r in chunk]


def judge_streams(records):
    """Operations performed on caller-supplied streams vs spec/StreamModel.tla (TraceStream)."""
    import re
    logs = [r["streamlog"] for r in records if r.get("streamlog")]
    if not logs:
        return 0, 0, []
    work = os.path.join(tlc.scratch_root(), "stream.%d" % os.getpid())
    os.makedirs(work, exist_ok=True)
    tf = os.path.join(work, "obs.json")
    with open(tf, "w") as f:
        json.dump({"records": logs}, f)
    r = tlc.run_tlc("TraceStream", cfg_file="TraceStream.cfg", workers=1, env={"TRACE_FILE": tf})
    shutil.rmtree(work, ignore_errors=True)
    acc, rej = 0, []
    for m in re.finditer(r'"RUN (\d+) (-?\d+) OF (\d+)"', r.out):
        if int(m.group(2)) == -1:
            acc += 1
        else:
            rej.append({"record": int(m.group(1)), "matched": max(0, int(m.group(2)) - 1),
                        "of": int(m.group(3)), "log": logs[int(m.group(1)) - 1]})
    if r.violated:
        rej.append({"invariant_violated": r.violated})
    return len(logs), acc, rej
